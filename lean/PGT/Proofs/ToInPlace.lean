import PGT.Proofs.ToRender
/-
CopyTo **in place** (C09, and the CopyTo half of C08): the target object already holds values. For every template, at
every nesting depth: if the existing attribute values are *shaped* for the IR (of the attribute's kind, nested objects
carrying the attribute types – any flags, any payloads, any elements), the call succeeds without diagnostics, the result
*follows* the source (`Spec.followsFields`: lists / maps exactly the source's elements, scalars that were non-null take the
source's value, pointer-backed scalars null iff nil, nil nullable messages null, nothing unknown) and is shaped again –
so the statement iterates over arbitrary sequences of calls.
-/
namespace PGT
open PGT.Spec

mutual
/-- an existing attribute value of field `f` whose type is `ty`: the right kind; nested objects carry `ty`'s attribute types
and are shaped themselves. Flags, payloads and the elements of lists / maps are arbitrary. -/
def Shaped : Field → TfVal → TfTy → Prop
  | ⟨info, _, _, sub⟩, a, ty =>
    match info.kind with
    | .primitive => ∃ k u n p, a = .prim k u n p ∧ ty = .prim k
    | .object => ∃ u n as tys, a = .obj u n as (some tys) ∧ ty = .obj (some tys) ∧ ShapedAttrs sub (as.getD []) tys
    | .primitiveList | .objectList => (∃ u n es et, a = .list u n es et) ∧ vkindOf info.tf.elemValueType ≠ .list
    | .primitiveMap | .objectMap => (∃ u n es et, a = .map u n es et) ∧ vkindOf info.tf.elemValueType ≠ .map
    | .custom => True

def ShapedAttrs : List Field → List (String × TfVal) → List (String × TfTy) → Prop
  | [], _, _ => True
  | f :: rest, attrs, atys =>
    (∀ a, attrs.lookup f.info.nameSnake = some a → ∃ ty, atys.lookup f.info.nameSnake = some ty ∧ Shaped f a ty) ∧
    ShapedAttrs rest attrs atys
end

/-- the existing value of the attribute, if any, is shaped -/
def CurShaped (f : Field) (cur : Option TfVal) (ty : TfTy) : Prop :=
  ∀ a, cur = some a → Shaped f a ty

theorem shapedAttrs_nil : ∀ (fs : List Field) (atys : List (String × TfTy)), ShapedAttrs fs [] atys
  | [], _ => trivial
  | f :: rest, atys => ⟨fun a h => by simp [List.lookup] at h, shapedAttrs_nil rest atys⟩

theorem shapedAttrs_lookup : ∀ (fs : List Field) (attrs : List (String × TfVal)) (atys : List (String × TfTy)),
    ShapedAttrs fs attrs atys → ∀ f ∈ fs, ∀ a, attrs.lookup f.info.nameSnake = some a →
      ∃ ty, atys.lookup f.info.nameSnake = some ty ∧ Shaped f a ty
  | [], _, _, _, f, hf => by simp at hf
  | g :: rest, attrs, atys, h, f, hf => by
    simp only [List.mem_cons] at hf
    rcases hf with rfl | hf
    · exact h.1
    · exact shapedAttrs_lookup rest attrs atys h.2 f hf

-- ------------------------------------------------------------------------------------------------------
-- the primitive template on an existing value

theorem primBody_inplace (info : FieldInfo) (k : PrimK) (obj : GoVal) (u n : Bool) (p : Sc) (t : Option TfTy)
    (rd : Outcome GoVal) (hk : vkindOf info.tf.elemValueType = .prim k) :
    primBody info obj (some (.prim k u n p)) t rd =
      (match assignPrim info obj rd (n, p) with
       | .ok (n', p') => .ok (.prim k false n' p', [])
       | .panic w => .panic w
       | .stuck w => .stuck w) := by
  unfold primBody
  simp only [hk]
  simp only [primStart, beq_self_eq_true, if_true]
  generalize assignPrim info obj rd (n, p) = r
  cases r with
  | ok q => cases q; rfl
  | panic _ => rfl
  | stuck _ => rfl

/-- the primitive clause of `Spec.followsField`, on the new attribute value `a` (`prevNonNull`: the attribute held a
non-null primitive before the call) -/
def followsPrim (info : FieldInfo) (obj : GoVal) (prevNonNull : Bool) (a : TfVal) : Bool :=
  let x := getVal info obj
  if info.isPlaceholder then true
  else if info.parentIsOptionalEmbed && parentIsNil info obj then isNull a
  else if info.isNullable then primRenders info x a
  else
    (match a with | .prim _ u _ _ => !u | _ => false) &&
    (if prevNonNull then
      match a, x with
      | .prim _ _ _ p, .sc s => (match info.castTo s with | some c => p == c | none => false)
      | _, _ => false
     else true)

/-- the hypotheses of `ToOK` for a primitive field -/
def PrimOK (info : FieldInfo) (obj : GoVal) : Prop :=
  info.isPlaceholder = true ∨
  (info.parentIsOptionalEmbed = true ∧ parentIsNil info obj = true ∧ info.oneOfName = "") ∨
  (Reachable info obj ∧ PrimTyped info (getVal info obj))

theorem primBody_inplace_follows (info : FieldInfo) (k : PrimK) (obj : GoVal) (u n : Bool) (p : Sc) (t : Option TfTy)
    (hk : vkindOf info.tf.elemValueType = .prim k) (hok : PrimOK info obj) :
    ∃ n' p', primBody info (oneOfShadow info obj) (some (.prim k u n p)) t (readField info (oneOfShadow info obj)) =
        .ok (.prim k false n' p', []) ∧
      followsPrim info obj (!n) (.prim k false n' p') = true := by
  rw [primBody_inplace info k _ u n p t _ hk]
  unfold followsPrim
  rcases hok with hph | ⟨hpe, hpn, hoo⟩ | ⟨hreach, htyped⟩
  · exact ⟨n, p, by simp [assignPrim, hph], by simp [hph]⟩
  · have hsh := shadow_id info obj hoo
    by_cases hph : info.isPlaceholder = true
    · exact ⟨n, p, by simp [assignPrim, hph], by simp [hph]⟩
    · have hph' : info.isPlaceholder = false := by simpa using hph
      refine ⟨true, p, by simp [assignPrim, hph', hsh, hpe, hpn], by simp [hph', hpe, hpn, isNull]⟩
  · by_cases hph : info.isPlaceholder = true
    · exact ⟨n, p, by simp [assignPrim, hph], by simp [hph]⟩
    · have hph' : info.isPlaceholder = false := by simpa using hph
      have hne : info.parentIsOptionalEmbed = false ∨ info.oneOfName = "" := by
        by_cases hp : info.parentIsOptionalEmbed = true
        · exact Or.inr (hreach hp).2.1
        · exact Or.inl (by simpa using hp)
      have hrd := readField_getVal info obj hreach hne
      have hnil0 := not_nil_of_reachable info obj hreach
      have hnn : (info.parentIsOptionalEmbed && parentIsNil info obj) = false := by
        cases h1 : info.parentIsOptionalEmbed <;> cases h2 : parentIsNil info obj <;> simp_all
      -- the guard of the embedded parent is evaluated on the shadowed struct; oneof branches are not embedded children
      have hguard : (if info.parentIsOptionalEmbed = true then parentIsNil info (oneOfShadow info obj) else false) = false := by
        by_cases hp : info.parentIsOptionalEmbed = true
        · have hoo := (hreach hp).2.1
          rw [shadow_id info obj hoo]
          simp only [hp, if_true]
          cases h2 : parentIsNil info obj
          · rfl
          · exact absurd ⟨hp, h2⟩ hnil0
        · simp [hp]
      rw [hrd]
      unfold PrimTyped at htyped
      by_cases hn : info.isNullable = true
      · simp only [hn, if_true] at htyped
        obtain ⟨_, hx⟩ := htyped
        rcases hx with hx | ⟨s, hx⟩
        · refine ⟨true, p, ?_, ?_⟩
          · unfold assignPrim
            simp only [hph', hn, hx]
            by_cases hp : info.parentIsOptionalEmbed = true
            · simp only [hp, if_true] at hguard
              simp [hp, hguard]
            · simp [hp]
          · simp [hph', hnn, hn, hx, primRenders, primKindOf, hk]
        · refine ⟨false, s, ?_, ?_⟩
          · unfold assignPrim
            simp only [hph', hn, hx]
            by_cases hp : info.parentIsOptionalEmbed = true
            · simp only [hp, if_true] at hguard
              simp [hp, hguard]
            · simp [hp]
          · simp [hph', hnn, hn, hx, primRenders, primKindOf, hk]
      · have hn' : info.isNullable = false := by simpa using hn
        simp only [hn', Bool.false_eq_true, if_false] at htyped
        obtain ⟨s, c, hx, hc, _⟩ := htyped
        refine ⟨n, c, ?_, ?_⟩
        · unfold assignPrim
          simp only [hph', hn', hx, hc]
          by_cases hp : info.parentIsOptionalEmbed = true
          · simp only [hp, if_true] at hguard
            simp [hp, hguard]
          · simp [hp]
        · simp [hph', hnn, hn', hx, hc]

-- ------------------------------------------------------------------------------------------------------
-- the object template on an existing value

/-- the recursive call on the nested message, in place: on a shaped attribute map it succeeds without diagnostics, the
result follows the struct and is shaped again -/
def RecInPlace (rec : ToRec) (tys : List (String × TfTy)) (P : GoVal → Prop)
    (F : GoVal → List (String × TfVal) → List (String × TfVal) → Bool) (S : List (String × TfVal) → Prop) : Prop :=
  ∀ s attrs diags hooks, P s → S attrs →
    ∃ attrs' hs, rec s (some tys) { attrs := attrs, diags := diags, hooks := hooks } =
        .ok { attrs := attrs', diags := diags, hooks := hooks ++ hs } ∧ F s attrs attrs' = true ∧ S attrs'

/-- the object clause of `Spec.followsField` -/
def followsObj (nullable : Bool) (F : GoVal → List (String × TfVal) → List (String × TfVal) → Bool) (x : GoVal)
    (prevInner : List (String × TfVal)) (a : TfVal) : Bool :=
  match a with
  | .obj u n as _ => !u && (if nullable && isNilPtr x then n else F (structOf x) prevInner (as.getD []))
  | _ => false

theorem objBody_inplace (rec : ToRec) (info : FieldInfo) (msg : Option MsgInfo) (oty : Option (List (String × TfTy)))
    (u n : Bool) (as : Option (List (String × TfVal))) (tys : List (String × TfTy))
    (x : GoVal) (diags : List Diag) (hooks : List HookCall) (P : GoVal → Prop)
    (F : GoVal → List (String × TfVal) → List (String × TfVal) → Bool) (S : List (String × TfVal) → Prop)
    (hrec : RecInPlace rec tys P F S) (hS : S (as.getD []))
    (hE : (isEmptyMsg msg) = true → ∀ fs, x = .ptr (some (.struct fs)) ∨ x = .struct fs → fs = [])
    (ht : MsgTyped info.isNullable P x) :
    ∃ v hs, objBody rec info msg false (some (.obj u n as (some tys))) oty (.ok x) diags hooks = .ok (v, diags, hooks ++ hs) ∧
      followsObj info.isNullable F x (as.getD []) v = true ∧
      ∃ n' as', v = .obj false n' (some as') (some tys) ∧ S as' := by
  -- the existing value's attribute map, nil or not
  have hcur : (match (some (TfVal.obj u n as (some tys)) : Option TfVal) with
      | some (.obj _ n (some as) tys) => (n, as, tys)
      | some (.obj _ n none tys) => (n, [], tys)
      | _ => (false, [], oty)) = (n, as.getD [], some tys) := by
    cases as <;> rfl
  unfold MsgTyped at ht
  by_cases hn : info.isNullable = true
  · simp only [hn, if_true] at ht
    rcases ht with rfl | ⟨fs, rfl, hP⟩
    · refine ⟨.obj false true (some (as.getD [])) (some tys), [], ?_, ?_, ⟨true, as.getD [], rfl, hS⟩⟩
      · unfold objBody
        cases as <;> simp [hn]
      · simp [followsObj, hn, isNilPtr]
    · obtain ⟨attrs', hs, hrun, hF, hS'⟩ := hrec (.struct fs) (as.getD []) diags hooks hP hS
      refine ⟨.obj false n (some attrs') (some tys), hs, ?_, ?_, ⟨n, attrs', rfl, hS'⟩⟩
      · unfold objBody
        cases hem : isEmptyMsg msg with
        | false => cases as <;> simp only [Option.getD] at hrun <;> simp [hn, hem, hrun]
        | true =>
          have : fs = [] := hE hem fs (Or.inl rfl)
          subst this
          cases as <;> simp only [Option.getD] at hrun <;> simp [hn, hem, hrun]
      · simp [followsObj, hn, isNilPtr, structOf, hF]
  · have hn' : info.isNullable = false := by simpa using hn
    simp only [hn', Bool.false_eq_true, if_false] at ht
    obtain ⟨fs, rfl, hP⟩ := ht
    obtain ⟨attrs', hs, hrun, hF, hS'⟩ := hrec (.struct fs) (as.getD []) diags hooks hP hS
    refine ⟨.obj false n (some attrs') (some tys), hs, ?_, ?_, ⟨n, attrs', rfl, hS'⟩⟩
    · unfold objBody
      cases hem : isEmptyMsg msg with
      | false => cases as <;> simp only [Option.getD] at hrun <;> simp [hn', hem, hrun]
      | true =>
        have : fs = [] := hE hem fs (Or.inr rfl)
        subst this
        cases as <;> simp only [Option.getD] at hrun <;> simp [hn', hem, hrun]
    · simp [followsObj, hn', structOf, hF]

-- ------------------------------------------------------------------------------------------------------
-- lists and maps on an existing value: the elements are rebuilt from the source

theorem reuseList_length (cur : Option TfVal) (n : Nat) (ety : Option TfTy) : (reuseList cur n ety).2.1.length = n := by
  unfold reuseList
  split
  · rename_i nl es et
    by_cases h : es.length = n
    · simp [h]
    · simp [h]
  · simp
  · simp

theorem listBody_inplace (rec : ToRec) (info : FieldInfo) (msg : Option MsgInfo) (se : Bool) (obj0 : GoVal) (ety : Option TfTy)
    (u nl : Bool) (es0 : Option (List TfVal)) (et : Option TfTy)
    (elems : List GoVal) (st : ToSt) (oty : Option (List (String × TfTy))) (Q : GoVal → TfVal → Bool)
    (hrep : info.isRepeated = true) (hek : vkindOf info.tf.elemValueType ≠ .list)
    (hoty : elemObjTy (info.kind == .objectList || info.kind == .objectMap) ety = .ok oty)
    (hb : BodySpec (elemBodyOf rec info msg se obj0 ety oty) Q elems) :
    ∃ es hs nl', listOrMapBody rec info msg se obj0 (some (.list u nl es0 et)) ety (.slice (some elems)) st =
        .ok { attrs := setKey info.nameSnake (.list false nl' (some es) et) st.attrs,
              diags := st.diags, hooks := st.hooks ++ hs } ∧
      es.length = elems.length ∧ (elems.zip es).all (fun (e, v) => Q e v) = true := by
  have hlen := reuseList_length (some (.list u nl es0 et)) elems.length ety
  obtain ⟨r, hs, hrun, hlen2, hall⟩ :=
    elemsList_spec (elemBodyOf rec info msg se obj0 ety oty) Q elems [] (reuseList (some (.list u nl es0 et)) elems.length ety).2.1
      st.diags st.hooks hb hlen
  simp only [List.length_nil, List.nil_append] at hrun
  have hcur : curIsElemKind info (some (.list u nl es0 et)) = false := by
    simp only [curIsElemKind, TfVal.vkind, beq_eq_false_iff_ne]
    exact fun h => hek h.symm
  have het : (reuseList (some (.list u nl es0 et)) elems.length ety).2.2 = et := by
    unfold reuseList; cases es0 <;> rfl
  have hnl : (reuseList (some (.list u nl es0 et)) elems.length ety).1 = nl := by
    unfold reuseList; cases es0 <;> rfl
  refine ⟨r, hs, (if elems.length > 0 then false else nl), ?_, hlen2, hall⟩
  unfold listOrMapBody
  simp only [hrep, if_true, hoty, hcur, Bool.false_eq_true, if_false, Option.getD, hrun, het, hnl]

theorem listBody_inplace_nil (rec : ToRec) (info : FieldInfo) (msg : Option MsgInfo) (se : Bool) (obj0 : GoVal) (ety : Option TfTy)
    (u nl : Bool) (es0 : Option (List TfVal)) (et : Option TfTy) (st : ToSt) (hrep : info.isRepeated = true) :
    listOrMapBody rec info msg se obj0 (some (.list u nl es0 et)) ety (.slice none) st =
      .ok { attrs := setKey info.nameSnake (.list false nl (some []) et) st.attrs, diags := st.diags, hooks := st.hooks } := by
  unfold listOrMapBody
  simp only [hrep, if_true, Option.getD, List.length_nil]
  have h := reuseList_length (some (.list u nl es0 et)) 0 ety
  have h0 : (reuseList (some (.list u nl es0 et)) 0 ety).2.1 = [] := by simpa using h
  have het : (reuseList (some (.list u nl es0 et)) 0 ety).2.2 = et := by
    unfold reuseList; cases es0 <;> rfl
  have hnl : (reuseList (some (.list u nl es0 et)) 0 ety).1 = nl := by
    unfold reuseList; cases es0 <;> rfl
  simp [ToSt.set, h0, het, hnl]

theorem mapBody_inplace (rec : ToRec) (info : FieldInfo) (msg : Option MsgInfo) (se : Bool) (obj0 : GoVal) (ety : Option TfTy)
    (u nl : Bool) (es0 : Option (List (String × TfVal))) (et : Option TfTy)
    (elems : List (String × GoVal)) (st : ToSt) (oty : Option (List (String × TfTy))) (Q : GoVal → TfVal → Bool)
    (hrep : info.isRepeated = false) (hek : vkindOf info.tf.elemValueType ≠ .map)
    (hoty : elemObjTy (info.kind == .objectList || info.kind == .objectMap) ety = .ok oty)
    (hnd : (elems.map (·.1)).Nodup)
    (hb : BodySpec (elemBodyOf rec info msg se obj0 ety oty) Q (elems.map (·.2))) :
    ∃ es hs nl', listOrMapBody rec info msg se obj0 (some (.map u nl es0 et)) ety (.map (some elems)) st =
        .ok { attrs := setKey info.nameSnake (.map false nl' (some es) et) st.attrs,
              diags := st.diags, hooks := st.hooks ++ hs } ∧
      es.length = elems.length ∧ (∀ e ∈ elems, ∃ v, es.lookup e.1 = some v ∧ Q e.2 v = true) := by
  obtain ⟨r, hs, hrun, hlen, hall, _⟩ :=
    elemsMap_spec (elemBodyOf rec info msg se obj0 ety oty) Q elems [] st.diags st.hooks hb hnd (by simp [List.lookup])
  have hcur : curIsElemKind info (some (.map u nl es0 et)) = false := by
    simp only [curIsElemKind, TfVal.vkind, beq_eq_false_iff_ne]
    exact fun h => hek h.symm
  refine ⟨r, hs, (if elems.length > 0 then false else nl), ?_, by simpa using hlen, hall⟩
  unfold listOrMapBody
  simp only [hrep, Bool.false_eq_true, if_false, hoty, hcur, reuseMap, hrun]

theorem mapBody_inplace_nil (rec : ToRec) (info : FieldInfo) (msg : Option MsgInfo) (se : Bool) (obj0 : GoVal) (ety : Option TfTy)
    (u nl : Bool) (es0 : Option (List (String × TfVal))) (et : Option TfTy) (st : ToSt) (hrep : info.isRepeated = false) :
    listOrMapBody rec info msg se obj0 (some (.map u nl es0 et)) ety (.map none) st =
      .ok { attrs := setKey info.nameSnake (.map false nl (some []) et) st.attrs, diags := st.diags, hooks := st.hooks } := by
  unfold listOrMapBody
  simp [hrep, reuseMap, ToSt.set]

-- ------------------------------------------------------------------------------------------------------
-- `Spec.followsField` as a function of the old and the new value of the attribute

def prevInnerOf (prev : Option TfVal) : List (String × TfVal) :=
  match prev with
  | some (.obj _ _ pas _) => pas.getD []
  | _ => []

def followsVal (f : Field) (obj : GoVal) (prev : Option TfVal) (a : TfVal) : Bool :=
  match f with
  | ⟨info, _, _, sub⟩ =>
    match info.kind with
    | .primitive => followsPrim info obj (wasNonNullPrim prev) a
    | .custom => true
    | .object => followsObj info.isNullable (fun o p c => followsFields sub o p c) (getVal info obj) (prevInnerOf prev) a
    | _ => rendersVal f obj (normColl a)

theorem lookup_map_val {α β} (g : α → β) (key : String) : ∀ (l : List (String × α)),
    (l.map fun x => (x.1, g x.2)).lookup key = (l.lookup key).map g
  | [] => rfl
  | (k, v) :: rest => by
    simp only [List.map_cons, List.lookup]
    cases (key == k) <;> simp [lookup_map_val g key rest]

theorem followsField_eq (f : Field) (obj : GoVal) (prev cur : List (String × TfVal)) :
    followsField f obj prev cur =
      (match cur.lookup f.info.nameSnake with
       | none => false
       | some a => followsVal f obj (prev.lookup f.info.nameSnake) a) := by
  obtain ⟨info, mv, msg, sub⟩ := f
  unfold followsField followsVal
  simp only []
  cases hl : cur.lookup info.nameSnake with
  | none => rfl
  | some a =>
    simp only []
    cases hk : info.kind with
    | primitive =>
      simp only [followsPrim]
      cases a <;> rfl
    | custom => rfl
    | object =>
      simp only [followsObj, prevInnerOf]
      cases a <;> rfl
    | primitiveList => simp only [rendersField, lookup_map_val normColl, hl, Option.map]
    | objectList => simp only [rendersField, lookup_map_val normColl, hl, Option.map]
    | primitiveMap => simp only [rendersField, lookup_map_val normColl, hl, Option.map]
    | objectMap => simp only [rendersField, lookup_map_val normColl, hl, Option.map]

-- ------------------------------------------------------------------------------------------------------
-- an absent attribute behaves like an empty shaped one (objects, lists, maps); scalars: the fresh template

theorem objBody_none_eq (rec : ToRec) (info : FieldInfo) (msg : Option MsgInfo) (se : Bool) (oty : Option (List (String × TfTy)))
    (x : Outcome GoVal) (ds : List Diag) (hs : List HookCall) :
    objBody rec info msg se none oty x ds hs = objBody rec info msg se (some (.obj false false (some []) oty)) oty x ds hs := by
  unfold objBody
  rfl

theorem listBody_none_eq (rec : ToRec) (info : FieldInfo) (msg : Option MsgInfo) (se : Bool) (obj0 : GoVal) (ety : Option TfTy)
    (src : GoVal) (st : ToSt) (hrep : info.isRepeated = true) (hek : vkindOf info.tf.elemValueType ≠ .list) :
    listOrMapBody rec info msg se obj0 none ety src st =
      listOrMapBody rec info msg se obj0 (some (.list false true none ety)) ety src st := by
  have hcur : curIsElemKind info (some (.list false true none ety)) = false := by
    simp only [curIsElemKind, TfVal.vkind, beq_eq_false_iff_ne]
    exact fun h => hek h.symm
  unfold listOrMapBody
  have hnone : curIsElemKind info none = false := rfl
  simp only [hrep, if_true, hcur, hnone, reuseList, Bool.false_eq_true, if_false]

theorem mapBody_none_eq (rec : ToRec) (info : FieldInfo) (msg : Option MsgInfo) (se : Bool) (obj0 : GoVal) (ety : Option TfTy)
    (src : GoVal) (st : ToSt) (hrep : info.isRepeated = false) (hek : vkindOf info.tf.elemValueType ≠ .map) :
    listOrMapBody rec info msg se obj0 none ety src st =
      listOrMapBody rec info msg se obj0 (some (.map false true none ety)) ety src st := by
  have hcur : curIsElemKind info (some (.map false true none ety)) = false := by
    simp only [curIsElemKind, TfVal.vkind, beq_eq_false_iff_ne]
    exact fun h => hek h.symm
  unfold listOrMapBody
  have hnone : curIsElemKind info none = false := rfl
  simp only [hrep, Bool.false_eq_true, if_false, hcur, hnone, reuseMap]

/-- the fresh primitive template (absent attribute), with the follow clause instead of the rendering clause -/
theorem primBody_fresh_follows (info : FieldInfo) (k : PrimK) (obj : GoVal) (prevNonNull : Bool)
    (hk : vkindOf info.tf.elemValueType = .prim k) (hok : PrimOK info obj) :
    ∃ n' p', primBody info (oneOfShadow info obj) none (some (.prim k)) (readField info (oneOfShadow info obj)) =
        .ok (.prim k false n' p', []) ∧
      followsPrim info obj prevNonNull (.prim k false n' p') = true := by
  unfold followsPrim
  rcases hok with hph | ⟨hpe, hpn, hoo⟩ | ⟨hreach, htyped⟩
  · exact ⟨true, k.zeroSc, by simp [primBody, primFresh, hk, nullOfTy, hph, assignPrim], by simp [hph]⟩
  · have hsh := shadow_id info obj hoo
    by_cases hph : info.isPlaceholder = true
    · exact ⟨true, k.zeroSc, by simp [primBody, primFresh, hk, nullOfTy, hph, assignPrim], by simp [hph]⟩
    · have hph' : info.isPlaceholder = false := by simpa using hph
      refine ⟨true, k.zeroSc, ?_, by simp [hph', hpe, hpn, isNull]⟩
      rw [hsh]
      unfold primBody
      simp only [hk, primFresh, nullOfTy, hph', hpe, hpn]
      by_cases hzv : (info.tf.zeroValue != "") = true
      · simp [hzv, assignPrim, hph', hpe, hpn]
      · simp [hzv, assignPrim, hph', hpe, hpn]
  · by_cases hph : info.isPlaceholder = true
    · exact ⟨true, k.zeroSc, by simp [primBody, primFresh, hk, nullOfTy, hph, assignPrim], by simp [hph]⟩
    · have hph' : info.isPlaceholder = false := by simpa using hph
      have hne : info.parentIsOptionalEmbed = false ∨ info.oneOfName = "" := by
        by_cases hp : info.parentIsOptionalEmbed = true
        · exact Or.inr (hreach hp).2.1
        · exact Or.inl (by simpa using hp)
      have hrd := readField_getVal info obj hreach hne
      have hnil0 := not_nil_of_reachable info obj hreach
      have hnil : ¬ (info.parentIsOptionalEmbed = true ∧ parentIsNil info (oneOfShadow info obj) = true) := by
        intro ⟨hp, hn⟩
        have hoo := (hreach hp).2.1
        rw [shadow_id info obj hoo] at hn
        exact hnil0 ⟨hp, hn⟩
      obtain ⟨v, hrun, hr⟩ := primBody_fresh_renders info k (oneOfShadow info obj) (getVal info obj) hk hph' hnil htyped
      have hnn : (info.parentIsOptionalEmbed && parentIsNil info obj) = false := by
        cases h1 : info.parentIsOptionalEmbed <;> cases h2 : parentIsNil info obj <;> simp_all
      rw [hrd, hrun]
      -- the rendered value is a primitive of kind k, known; read the follow clause off the rendering
      unfold primRenders at hr
      cases v with
      | prim k' u n p =>
        simp only [Bool.and_eq_true, Bool.not_eq_true', beq_iff_eq] at hr
        obtain ⟨⟨hu, hkk⟩, hrest⟩ := hr
        have hk' : k' = k := by
          unfold primKindOf at hkk
          rw [hk] at hkk
          injection hkk with hkk
          exact hkk.symm
        subst hk' hu
        refine ⟨n, p, rfl, ?_⟩
        simp only [hph', hnn, Bool.false_eq_true, if_false]
        by_cases hn : info.isNullable = true
        · simp only [hn, if_true] at hrest ⊢
          simp only [primRenders, hn, if_true, hkk]
          simpa using hrest
        · have hn' : info.isNullable = false := by simpa using hn
          simp only [hn', Bool.false_eq_true, if_false] at hrest ⊢
          cases hx : getVal info obj with
          | sc s =>
            simp only [hx, Bool.and_eq_true] at hrest
            cases prevNonNull
            · simp
            · have := hrest.1
              cases hc : info.castTo s <;> simp_all
          | ptr _ => simp [hx] at hrest
          | struct _ => simp [hx] at hrest
          | slice _ => simp [hx] at hrest
          | map _ => simp [hx] at hrest
          | iface _ => simp [hx] at hrest
      | list _ _ _ _ => simp at hr
      | map _ _ _ _ => simp at hr
      | obj _ _ _ _ => simp at hr
      | nilv => simp at hr
      | foreign _ => simp at hr

-- ------------------------------------------------------------------------------------------------------
-- the induction over the IR

theorem followsFields_of_forall : ∀ (fs : List Field) (obj : GoVal) (prev cur : List (String × TfVal)),
    (∀ f ∈ fs, ∃ v, cur.lookup f.info.nameSnake = some v ∧ followsVal f obj (prev.lookup f.info.nameSnake) v = true) →
    followsFields fs obj prev cur = true
  | [], _, _, _, _ => by simp [followsFields]
  | f :: rest, obj, prev, cur, h => by
    unfold followsFields
    obtain ⟨v, hl, hv⟩ := h f (by simp)
    rw [followsField_eq, hl]
    simp only [hv, Bool.true_and]
    exact followsFields_of_forall rest obj prev cur (fun g hg => h g (by simp [hg]))

theorem isEmpty_eq_of_length {α β} (l : List α) (m : List β) (h : l.length = m.length) : l.isEmpty = m.isEmpty := by
  cases l <;> cases m <;> simp_all

mutual

theorem toField_inplace : ∀ (f : Field) (obj : GoVal) (atys : List (String × TfTy)) (st : ToSt) (ty : TfTy),
    atys.lookup f.info.nameSnake = some ty → ToOK f obj ty → CurShaped f (st.attrs.lookup f.info.nameSnake) ty →
    ∃ v hs, copyToField f obj (some atys) st =
        .ok { attrs := setKey f.info.nameSnake v st.attrs, diags := st.diags, hooks := st.hooks ++ hs } ∧
      followsVal f obj (st.attrs.lookup f.info.nameSnake) v = true ∧ Shaped f v ty
  | ⟨info, mapVal, msg, sub⟩, obj, atys, st, ty, hty, hok, hcs => by
    simp only at hty hcs
    unfold ToOK at hok
    unfold CurShaped Shaped at hcs
    unfold copyToField copyToFieldWith followsVal Shaped
    simp only [Option.getD, hty]
    -- the recursive call on the nested message, in place
    have hrecIP : ∀ as, RecInPlace (fun o a s => copyToFields sub o a s) as (fun s => ToOKs sub s as)
        (fun o p c => followsFields sub o p c) (fun attrs => ShapedAttrs sub attrs as) := by
      intro as s attrs diags hooks hP hS
      obtain ⟨st', hrun, hd, ⟨hs, hh⟩, hall, hS', _⟩ :=
        toFields_inplace sub s as { attrs := attrs, diags := diags, hooks := hooks } hP hS
      refine ⟨st'.attrs, hs, ?_, followsFields_of_forall sub s attrs st'.attrs hall, hS'⟩
      show copyToFields sub s (some as) _ = _
      rw [hrun]
      cases st'
      simp_all
    cases hkind : info.kind with
    | primitive =>
      simp only [hkind] at hok hcs ⊢
      obtain ⟨⟨k, hk, rfl⟩, hpok⟩ := hok
      cases hcur : st.attrs.lookup info.nameSnake with
      | none =>
        obtain ⟨n', p', hrun, hf⟩ := primBody_fresh_follows info k obj (wasNonNullPrim none) hk hpok
        refine ⟨.prim k false n' p', [], ?_, hf, ⟨k, false, n', p', rfl, rfl⟩⟩
        rw [hrun]
        simp [ToSt.set]
      | some a =>
        obtain ⟨k', u, n, p, rfl, hkk⟩ := hcs a hcur
        injection hkk with hkk
        subst hkk
        obtain ⟨n', p', hrun, hf⟩ := primBody_inplace_follows info k obj u n p (some (.prim k)) hk hpok
        refine ⟨.prim k false n' p', [], ?_, by simpa [wasNonNullPrim] using hf, ⟨k, false, n', p', rfl, rfl⟩⟩
        rw [hrun]
        simp [ToSt.set]
    | custom =>
      simp only [hkind] at hok ⊢
      obtain ⟨hoo, hreach, v, hv⟩ := hok
      have hrd := readField_getVal info obj hreach (Or.inr hoo)
      rw [shadow_id info obj hoo] at hrd
      refine ⟨v, [.copyTo ("CopyTo" ++ info.suffix) (getVal info obj) (some ty) ((st.attrs.lookup info.nameSnake).getD .nilv)], ?_, ?_, ?_⟩
      · simp [hrd, hv, ToSt.set]
        cases List.lookup info.nameSnake st.attrs <;> rfl
      · simp
      · simp
    | object =>
      simp only [hkind] at hok hcs ⊢
      obtain ⟨hreach, as, rfl, hsub, hE, htyped⟩ := hok
      have hne : info.parentIsOptionalEmbed = false ∨ info.oneOfName = "" := by
        by_cases hp : info.parentIsOptionalEmbed = true
        · exact Or.inr (hreach hp).2.1
        · exact Or.inl (by simpa using hp)
      have hrd := readField_getVal info obj hreach hne
      have hse : sub.isEmpty = false := by cases sub <;> simp_all
      simp only []
      rw [hrd, hse]
      cases hcur : st.attrs.lookup info.nameSnake with
      | none =>
        rw [objBody_none_eq]
        obtain ⟨v, hs, hrun, hf, n', as', hv, hS'⟩ :=
          objBody_inplace (fun o a s => copyToFields sub o a s) info msg (some as) false false (some []) as (getVal info obj)
            st.diags st.hooks _ _ _ (hrecIP as) (shapedAttrs_nil sub as) hE htyped
        refine ⟨v, hs, by rw [hrun], by simpa [prevInnerOf] using hf, ?_⟩
        exact ⟨false, n', some as', as, hv, rfl, hS'⟩
      | some a =>
        obtain ⟨u, n, as0, tys, rfl, htys, hS⟩ := hcs a hcur
        injection htys with htys
        injection htys with htys
        subst htys
        obtain ⟨v, hs, hrun, hf, n', as', hv, hS'⟩ :=
          objBody_inplace (fun o a s => copyToFields sub o a s) info msg (some as) u n as0 as (getVal info obj)
            st.diags st.hooks _ _ _ (hrecIP as) hS hE htyped
        refine ⟨v, hs, by rw [hrun], by simpa [prevInnerOf] using hf, ?_⟩
        exact ⟨false, n', some as', as, hv, rfl, hS'⟩
    | primitiveList =>
      simp only [hkind] at hok hcs ⊢
      obtain ⟨hrep, hoo, hnp, hreach, k, hk, rfl, hval⟩ := hok
      have hrd := readField_getVal info obj hreach (Or.inr hoo)
      rw [shadow_id info obj hoo] at hrd
      have hek : vkindOf info.tf.elemValueType ≠ .list := by rw [hk]; simp
      simp only [hrep, if_true]
      rw [hrd]
      dsimp only
      have key : ∀ (u nl : Bool) (es0 : Option (List TfVal)) (et : Option TfTy),
          ∃ v hs, listOrMapBody (fun o a s => copyToFields sub o a s) info msg sub.isEmpty obj (some (.list u nl es0 et)) (some (.prim k)) (getVal info obj) st =
              .ok { attrs := setKey info.nameSnake v st.attrs, diags := st.diags, hooks := st.hooks ++ hs } ∧
            rendersVal ⟨info, mapVal, msg, sub⟩ obj (normColl v) = true ∧ (∃ u n es et, v = TfVal.list u n es et) := by
        intro u nl es0 et
        rcases hval with hnil | ⟨es, hes, htyped⟩
        · rw [hnil, listBody_inplace_nil _ _ _ _ _ _ _ _ _ _ _ hrep]
          refine ⟨.list false nl (some []) et, [], by simp, ?_, ⟨_, _, _, _, rfl⟩⟩
          simp [rendersVal, hkind, normColl, hnil, sliceElems]
        · rw [hes]
          have hoty : elemObjTy (info.kind == .objectList || info.kind == .objectMap) (some (.prim k)) = .ok none := by
            simp [elemObjTy, hkind]
          have hbody : elemBodyOf (fun o a s => copyToFields sub o a s) info msg sub.isEmpty obj (some (.prim k)) none =
              primElemBody info obj (some (.prim k)) := by simp [elemBodyOf, hkind]
          have hb := primElem_spec info k obj es hk hnp (not_nil_of_reachable info obj hreach) htyped
          rw [← hbody] at hb
          obtain ⟨r, hs, nl', hrun, hlen, hall⟩ :=
            listBody_inplace (fun o a s => copyToFields sub o a s) info msg sub.isEmpty obj (some (.prim k)) u nl es0 et es st none
              (fun e v => primRenders info e v) hrep hek hoty hb
          refine ⟨_, hs, hrun, ?_, ⟨_, _, _, _, rfl⟩⟩
          simp [rendersVal, hkind, normColl, hes, sliceElems, hlen, hall, isEmpty_eq_of_length r es hlen]
      cases hcur : st.attrs.lookup info.nameSnake with
      | none =>
        rw [listBody_none_eq _ _ _ _ _ _ _ _ hrep hek]
        obtain ⟨v, hs, hrun, hf, hsh⟩ := key false true none (some (.prim k))
        exact ⟨v, hs, hrun, hf, hsh, hek⟩
      | some a =>
        obtain ⟨⟨u, nl, es0, et, rfl⟩, _⟩ := hcs a hcur
        obtain ⟨v, hs, hrun, hf, hsh⟩ := key u nl es0 et
        exact ⟨v, hs, hrun, hf, hsh, hek⟩
    | objectList =>
      simp only [hkind] at hok hcs ⊢
      obtain ⟨hrep, hoo, hreach, hevk, as, rfl, hsub, hne, hval⟩ := hok
      have hrd := readField_getVal info obj hreach (Or.inr hoo)
      rw [shadow_id info obj hoo] at hrd
      have hse : sub.isEmpty = false := by cases sub <;> simp_all
      have hek0 : vkindOf info.tf.elemValueType ≠ .list := by rw [hevk]; simp
      simp only [hrep, if_true]
      rw [hrd]
      dsimp only
      have hrec : RecSpec (fun o a s => copyToFields sub o a s) (some as) (fun s => ToOKs sub s as) (fun o as' => rendersFields sub o as') := by
        intro s diags hooks hP
        obtain ⟨st', hrun, hd, ⟨hs, hh⟩, hr, _⟩ :=
          toFields_renders sub s as { attrs := [], diags := diags, hooks := hooks } hP (by intro f _; simp [List.lookup])
        refine ⟨st'.attrs, hs, ?_, hr⟩
        show copyToFields sub s (some as) _ = _
        rw [hrun]
        cases st'
        simp_all
      have key : ∀ (u nl : Bool) (es0 : Option (List TfVal)) (et : Option TfTy), vkindOf info.tf.elemValueType ≠ .list →
          ∃ v hs, listOrMapBody (fun o a s => copyToFields sub o a s) info msg sub.isEmpty obj (some (.list u nl es0 et)) (some (.obj (some as))) (getVal info obj) st =
              .ok { attrs := setKey info.nameSnake v st.attrs, diags := st.diags, hooks := st.hooks ++ hs } ∧
            rendersVal ⟨info, mapVal, msg, sub⟩ obj (normColl v) = true ∧ (∃ u n es et, v = TfVal.list u n es et) := by
        intro u nl es0 et hek
        rcases hval with hnil | ⟨es, hes, htyped⟩
        · rw [hnil, listBody_inplace_nil _ _ _ _ _ _ _ _ _ _ _ hrep]
          refine ⟨.list false nl (some []) et, [], by simp, ?_, ⟨_, _, _, _, rfl⟩⟩
          simp [rendersVal, hkind, normColl, hnil, sliceElems]
        · rw [hes]
          have hoty : elemObjTy (info.kind == .objectList || info.kind == .objectMap) (some (.obj (some as))) = .ok (some as) := by
            simp [elemObjTy, hkind]
          have hb : BodySpec (elemBodyOf (fun o a s => copyToFields sub o a s) info msg sub.isEmpty obj (some (.obj (some as))) (some as))
              (fun e v => objRenders info.isNullable (fun o as' => rendersFields sub o as') e v) es := by
            intro a ha diags hooks
            have hE : isEmptyMsg msg = true → ∀ fs, a = .ptr (some (.struct fs)) ∨ a = .struct fs → fs = [] := by
              intro h; rw [hne] at h; cases h
            obtain ⟨v, hs, hrun, hr⟩ := objBody_fresh (fun o a s => copyToFields sub o a s) info msg (some as) a diags hooks
              (fun s => ToOKs sub s as) (fun o as' => rendersFields sub o as') hrec hE (htyped a ha)
            refine ⟨v, hs, ?_, hr⟩
            simp only [elemBodyOf, hkind, hse]
            simpa using hrun
          obtain ⟨r, hs, nl', hrun, hlen, hall⟩ :=
            listBody_inplace (fun o a s => copyToFields sub o a s) info msg sub.isEmpty obj (some (.obj (some as))) u nl es0 et es st (some as) _ hrep hek hoty hb
          refine ⟨_, hs, hrun, ?_, ⟨_, _, _, _, rfl⟩⟩
          simp [rendersVal, hkind, normColl, hes, sliceElems, hlen, hall, isEmpty_eq_of_length r es hlen]
      cases hcur : st.attrs.lookup info.nameSnake with
      | none =>
        rw [listBody_none_eq _ _ _ _ _ _ _ _ hrep hek0]
        obtain ⟨v, hs, hrun, hf, hsh⟩ := key false true none (some (.obj (some as))) hek0
        exact ⟨v, hs, hrun, hf, hsh, hek0⟩
      | some a =>
        obtain ⟨⟨u, nl, es0, et, rfl⟩, hek⟩ := hcs a hcur
        obtain ⟨v, hs, hrun, hf, hsh⟩ := key u nl es0 et hek
        exact ⟨v, hs, hrun, hf, hsh, hek⟩
    | primitiveMap =>
      simp only [hkind] at hok hcs ⊢
      obtain ⟨hrep, hoo, hnp, hreach, hzv, k, hk, rfl, hval⟩ := hok
      have hrd := readField_getVal info obj hreach (Or.inr hoo)
      rw [shadow_id info obj hoo] at hrd
      have hek : vkindOf info.tf.elemValueType ≠ .map := by rw [hk]; simp
      simp only [hrep, Bool.false_eq_true, if_false]
      rw [hrd]
      dsimp only
      have key : ∀ (u nl : Bool) (es0 : Option (List (String × TfVal))) (et : Option TfTy),
          ∃ v hs, listOrMapBody (fun o a s => copyToFields sub o a s) info msg sub.isEmpty obj (some (.map u nl es0 et)) (some (.prim k)) (getVal info obj) st =
              .ok { attrs := setKey info.nameSnake v st.attrs, diags := st.diags, hooks := st.hooks ++ hs } ∧
            rendersVal ⟨info, mapVal, msg, sub⟩ obj (normColl v) = true ∧ (∃ u n es et, v = TfVal.map u n es et) := by
        intro u nl es0 et
        rcases hval with hnil | ⟨es, hes, hnd, htyped⟩
        · rw [hnil, mapBody_inplace_nil _ _ _ _ _ _ _ _ _ _ _ hrep]
          refine ⟨.map false nl (some []) et, [], by simp, ?_, ⟨_, _, _, _, rfl⟩⟩
          simp [rendersVal, hkind, normColl, hnil, mapElems]
        · rw [hes]
          have hoty : elemObjTy (info.kind == .objectList || info.kind == .objectMap) (some (.prim k)) = .ok none := by
            simp [elemObjTy, hkind]
          have hbody : elemBodyOf (fun o a s => copyToFields sub o a s) info msg sub.isEmpty obj (some (.prim k)) none =
              primElemBody info obj (some (.prim k)) := by simp [elemBodyOf, hkind]
          have hb := primElem_spec info k obj (es.map (·.2)) hk hnp (not_nil_of_reachable info obj hreach)
            (by intro e he; simp at he; obtain ⟨a, ha⟩ := he; exact htyped _ ha)
          rw [← hbody] at hb
          obtain ⟨r, hs, nl', hrun, hlen, hall⟩ :=
            mapBody_inplace (fun o a s => copyToFields sub o a s) info msg sub.isEmpty obj (some (.prim k)) u nl es0 et es st none
              (fun e v => primRenders info e v) hrep hek hoty hnd hb
          refine ⟨_, hs, hrun, ?_, ⟨_, _, _, _, rfl⟩⟩
          simp only [rendersVal, hkind, normColl, hes, mapElems, Option.getD]
          simp [hlen, isEmpty_eq_of_length r es hlen]
          intro a b hab
          obtain ⟨v, hv, hq⟩ := hall (a, b) hab
          simp [hv, hq]
      cases hcur : st.attrs.lookup info.nameSnake with
      | none =>
        rw [mapBody_none_eq _ _ _ _ _ _ _ _ hrep hek]
        obtain ⟨v, hs, hrun, hf, hsh⟩ := key false true none (some (.prim k))
        exact ⟨v, hs, hrun, hf, hsh, hek⟩
      | some a =>
        obtain ⟨⟨u, nl, es0, et, rfl⟩, _⟩ := hcs a hcur
        obtain ⟨v, hs, hrun, hf, hsh⟩ := key u nl es0 et
        exact ⟨v, hs, hrun, hf, hsh, hek⟩
    | objectMap =>
      simp only [hkind] at hok hcs ⊢
      obtain ⟨hrep, hoo, hreach, hevk, as, rfl, hsub, hne, hval⟩ := hok
      have hrd := readField_getVal info obj hreach (Or.inr hoo)
      rw [shadow_id info obj hoo] at hrd
      have hse : sub.isEmpty = false := by cases sub <;> simp_all
      have hek : vkindOf info.tf.elemValueType ≠ .map := by rw [hevk]; simp
      simp only [hrep, Bool.false_eq_true, if_false]
      rw [hrd]
      dsimp only
      have hrec : RecSpec (fun o a s => copyToFields sub o a s) (some as) (fun s => ToOKs sub s as) (fun o as' => rendersFields sub o as') := by
        intro s diags hooks hP
        obtain ⟨st', hrun, hd, ⟨hs, hh⟩, hr, _⟩ :=
          toFields_renders sub s as { attrs := [], diags := diags, hooks := hooks } hP (by intro f _; simp [List.lookup])
        refine ⟨st'.attrs, hs, ?_, hr⟩
        show copyToFields sub s (some as) _ = _
        rw [hrun]
        cases st'
        simp_all
      have key : ∀ (u nl : Bool) (es0 : Option (List (String × TfVal))) (et : Option TfTy),
          ∃ v hs, listOrMapBody (fun o a s => copyToFields sub o a s) info msg sub.isEmpty obj (some (.map u nl es0 et)) (some (.obj (some as))) (getVal info obj) st =
              .ok { attrs := setKey info.nameSnake v st.attrs, diags := st.diags, hooks := st.hooks ++ hs } ∧
            rendersVal ⟨info, mapVal, msg, sub⟩ obj (normColl v) = true ∧ (∃ u n es et, v = TfVal.map u n es et) := by
        intro u nl es0 et
        rcases hval with hnil | ⟨es, hes, hnd, htyped⟩
        · rw [hnil, mapBody_inplace_nil _ _ _ _ _ _ _ _ _ _ _ hrep]
          refine ⟨.map false nl (some []) et, [], by simp, ?_, ⟨_, _, _, _, rfl⟩⟩
          simp [rendersVal, hkind, normColl, hnil, mapElems]
        · rw [hes]
          have hoty : elemObjTy (info.kind == .objectList || info.kind == .objectMap) (some (.obj (some as))) = .ok (some as) := by
            simp [elemObjTy, hkind]
          have hb : BodySpec (elemBodyOf (fun o a s => copyToFields sub o a s) info msg sub.isEmpty obj (some (.obj (some as))) (some as))
              (fun e v => objRenders info.isNullable (fun o as' => rendersFields sub o as') e v) (es.map (·.2)) := by
            intro a ha diags hooks
            simp at ha
            obtain ⟨key, hka⟩ := ha
            have hE : isEmptyMsg msg = true → ∀ fs, a = .ptr (some (.struct fs)) ∨ a = .struct fs → fs = [] := by
              intro h; rw [hne] at h; cases h
            obtain ⟨v, hs, hrun, hr⟩ := objBody_fresh (fun o a s => copyToFields sub o a s) info msg (some as) a diags hooks
              (fun s => ToOKs sub s as) (fun o as' => rendersFields sub o as') hrec hE (htyped _ hka)
            refine ⟨v, hs, ?_, hr⟩
            simp only [elemBodyOf, hkind, hse]
            simpa using hrun
          obtain ⟨r, hs, nl', hrun, hlen, hall⟩ :=
            mapBody_inplace (fun o a s => copyToFields sub o a s) info msg sub.isEmpty obj (some (.obj (some as))) u nl es0 et es st (some as) _ hrep hek hoty hnd hb
          refine ⟨_, hs, hrun, ?_, ⟨_, _, _, _, rfl⟩⟩
          simp only [rendersVal, hkind, normColl, hes, mapElems, Option.getD]
          simp [hlen, isEmpty_eq_of_length r es hlen]
          intro a b hab
          obtain ⟨v, hv, hq⟩ := hall (a, b) hab
          simp [hv, hq]
      cases hcur : st.attrs.lookup info.nameSnake with
      | none =>
        rw [mapBody_none_eq _ _ _ _ _ _ _ _ hrep hek]
        obtain ⟨v, hs, hrun, hf, hsh⟩ := key false true none (some (.obj (some as)))
        exact ⟨v, hs, hrun, hf, hsh, hek⟩
      | some a =>
        obtain ⟨⟨u, nl, es0, et, rfl⟩, _⟩ := hcs a hcur
        obtain ⟨v, hs, hrun, hf, hsh⟩ := key u nl es0 et
        exact ⟨v, hs, hrun, hf, hsh, hek⟩

theorem toFields_inplace : ∀ (fs : List Field) (obj : GoVal) (atys : List (String × TfTy)) (st : ToSt),
    ToOKs fs obj atys → ShapedAttrs fs st.attrs atys →
    ∃ st', copyToFields fs obj (some atys) st = .ok st' ∧ st'.diags = st.diags ∧ (∃ hs, st'.hooks = st.hooks ++ hs) ∧
      (∀ f ∈ fs, ∃ v, st'.attrs.lookup f.info.nameSnake = some v ∧
          followsVal f obj (st.attrs.lookup f.info.nameSnake) v = true) ∧
      ShapedAttrs fs st'.attrs atys ∧
      (∀ key, key ∉ fs.map (·.info.nameSnake) → st'.attrs.lookup key = st.attrs.lookup key)
  | [], obj, atys, st, _, _ => ⟨st, by simp [copyToFields], rfl, ⟨[], by simp⟩, by simp, trivial, by simp⟩
  | f :: rest, obj, atys, st, hok, hsh => by
    unfold ToOKs at hok
    obtain ⟨⟨ty, hty, hf⟩, hnotin, hrest⟩ := hok
    have hcs : CurShaped f (st.attrs.lookup f.info.nameSnake) ty := by
      intro a ha
      obtain ⟨ty', hty', hS⟩ := hsh.1 a ha
      rw [hty] at hty'
      injection hty' with hty'
      subst hty'
      exact hS
    obtain ⟨v, hs1, hstep, hfv, hSv⟩ := toField_inplace f obj atys st ty hty hf hcs
    -- the other attributes are untouched by this block
    have hsh1 : ShapedAttrs rest (setKey f.info.nameSnake v st.attrs) atys := by
      have : ∀ (l : List Field), (∀ g ∈ l, g.info.nameSnake ≠ f.info.nameSnake) → ShapedAttrs l st.attrs atys →
          ShapedAttrs l (setKey f.info.nameSnake v st.attrs) atys := by
        intro l
        induction l with
        | nil => intro _ _; trivial
        | cons g l ih =>
          intro hne hS
          refine ⟨?_, ih (fun x hx => hne x (by simp [hx])) hS.2⟩
          intro a ha
          rw [lookup_setKey_other _ _ _ (hne g (by simp))] at ha
          exact hS.1 a ha
      apply this rest _ hsh.2
      intro g hg e
      exact hnotin (by rw [← e]; exact List.mem_map_of_mem hg)
    obtain ⟨st', hrun, hd, ⟨hs2, hh⟩, hall, hS', hframe⟩ :=
      toFields_inplace rest obj atys { attrs := setKey f.info.nameSnake v st.attrs, diags := st.diags, hooks := st.hooks ++ hs1 }
        hrest hsh1
    have hlk : st'.attrs.lookup f.info.nameSnake = some v := by
      rw [hframe _ hnotin]
      exact lookup_setKey_same _ _ _
    refine ⟨st', ?_, hd, ⟨hs1 ++ hs2, by simp [hh]⟩, ?_, ?_, ?_⟩
    · simp only [copyToFields, hstep]
      exact hrun
    · intro g hg
      simp only [List.mem_cons] at hg
      rcases hg with rfl | hg
      · exact ⟨v, hlk, hfv⟩
      · obtain ⟨w, hw, hfw⟩ := hall g hg
        refine ⟨w, hw, ?_⟩
        have hne : g.info.nameSnake ≠ f.info.nameSnake := by
          intro e
          exact hnotin (by rw [← e]; exact List.mem_map_of_mem hg)
        simpa [lookup_setKey_other _ _ _ hne] using hfw
    · refine ⟨?_, hS'⟩
      intro a ha
      rw [hlk] at ha
      injection ha with ha
      subst ha
      exact ⟨ty, hty, hSv⟩
    · intro key hkey
      simp only [List.map_cons, List.mem_cons, not_or] at hkey
      rw [hframe key hkey.2]
      exact lookup_setKey_other _ _ _ hkey.1 _

end

end PGT
