import PGT.Proofs.BuiltWF
import PGT.Proofs.RoundTripEmbed
import PGT.Proofs.SchemaTyped
import PGT.Proofs.FloatRT
/-
P61 - C04 (round trip) for the IRs the front end BUILDS: the IR-side part of `RT3OKs` (RoundTripEmbed) discharged for built IRs.

`C04_roundtrip_all` holds under `ToOKs` and `RT3OKs`; SchemaTyped reduces `ToOKs` on the schema's own types to `IRWFs` + `ValOKs`;
BuiltWF proves `IRWFs m.fields ↔ gapFreeBs ∧ namesOKsB` for built `m` and leaves `PrimRT` and the oneof-branch clauses open.
This file closes that.

1. `RTNode` / `RTNodes` (IR part of `RT3OK`, hereditary: `EmptyOK`, placeholder facts, `vkindOf` equations, `PrimRT` of the scalar
   kinds, the oneof-branch clauses, `SepOK3` between siblings) and `RTVal` / `RTVals` (value part: `PrimVal`, `MsgTyped`, elements,
   `Nodup` of map keys, `CustomTyped`, and `HolderWF` – a fact about the holder stored in the struct).
   `rt3oks_of_split : RTNodes fs → RTVals fs obj → RT3OKs fs obj`;
   `rtVals_of_rt3oks`, `rtLevel_of_rt3oks` (converse: value part at every depth, IR part (`RTNode1`, `SepOK3`) at the level itself).
   The equivalence with the hereditary IR part is FALSE (`rt3oks_iff_full_false`: a nil pointer does not witness the node facts
   of the message behind it). No clause mixes node and value inseparably: in `∃ k, PrimRT info k ∧ vkindOf … = .prim k ∧ PrimVal …`
   the value conjunct does not mention `k`.
2. `PrimRT` from the table.
   `narrow_widen_nan`            float32 → float64 → float32 maps NaNs to NaNs (kernel-checked, `toNat` level); with `F.narrow_widen`
                                 the float32 row round-trips in normal form on ALL bit patterns (`f32_rt`).
   `pairOKb` / `pair_inv`        six pairs (representation of `ValueCastToType`, value kind) for which `castFrom (castTo x) = x` in
                                 normal form for EVERY Go representation of the field (also behind cast types) and every value.
   `primRT_of_pair`              `PrimRT` from `pairOKb` + "a pointer-backed scalar has the payload's representation".
   `getTerraformType_casts`, `CastSrc`, `cast_all` / `built_casts`   THE NEW INVARIANT, by induction over the fuel, no hypothesis:
                                 at every node of every built IR (`ValueCastToType`, `ElemValueType`) is the pair of a base record of
                                 the regenerated table or of the configured time / duration type (a map node carries its value field's).
   `bases_pairOK` (decide)       every base record carries a good pair.
   `ConfigCastsAgree` (`cfgCastsB`, Boolean on the configuration): the configured types carry a good pair – exactly what is needed of
                                 them beyond `ConfigTypesAgree`: value type `…TimeValue` ⇒ cast-to `time.Time`, `…DurationValue` ⇒
                                 `time.Duration` (or a cast-to type the model does not know). Nothing is needed of `cast_from_type`
                                 for non-pointer scalars; for pointer-backed ones see `ptrB`.
   `built_primRT`                every scalar node (primitive, primitiveList, primitiveMap) of a built IR satisfies `PrimRT` for the
                                 `k` of its element value type, given `ConfigTypesAgree`, `ConfigCastsAgree` and `ptrB`.
3. the oneof-branch clauses. `parentIsOptionalEmbed = false` and "kind is primitive or object" follow from `IRWF` (`EmbedOK`,
   `oneOfName = ""` on the other kinds; BuiltWF witnesses w3 – w5). NOT guaranteed and not part of `IRWF`: `branchB` – a scalar branch
   is not pointer-backed and has a zero literal, a message branch is a pointer. Witnesses (`decide +kernel`, built IRs without gap and
   with distinct names): `Witness.b1_timestampBranch` (Timestamp member: pointer-backed, no zero literal), `b2_stdtimeBranch`
   (stdtime, nullable = false: no zero literal), `b3_valueMessageBranch` (message member with nullable = false).
   Descriptor reading (not proved here): `branchB` holds when no oneof member is a Timestamp / Duration (or time / duration by
   cast type) and no message member of a oneof has `nullable = false`.
   `ptrB`: a pointer-backed scalar has the representation of its value kind's payload; witness `b4_pointerCast` (cast type `*X`).
   Descriptor reading (not proved): no cast type contains `*`, and the configured `cast_from_type` of the time (duration) type is
   `time.Time` (`time.Duration`) or unknown to the model.
4. `sepB` (`sepB_iff : sepB f g = true ↔ SepOK3 f g`), `sepOKsB` (per level, every depth). Witnesses `b5_fieldNamedLikeHolder`,
   `b6_sameGoName`. Descriptor reading (not proved): per message, the Go names (`goName` of the proto names, incl. those promoted
   from embedded messages), the holders (`goName` of the oneof names) and the short type names of messages embedded by pointer are
   pairwise distinct; the wrapper types `Msg_Field` of one group differ as soon as the Go names do.
   `rtBs` = `branchOKsB ∧ ptrOKsB ∧ sepOKsB` (`rtBs_iff`): THE residual Boolean on the IR.
5. MAIN `C04_built_root_typed`, `C04_full_built_root_typed` (shape of `C04_full`), `C04_built_roots_typed` (`m ∈ (buildRoots …).1`):
   `ConfigTypesAgree`, `ConfigCastsAgree` (configuration), `gapFreeBs`, `namesOKsB`, `rtBs` (Booleans on `m`), `ValOKs` and `RTVals`
   (value). The two value judgements do not coincide: `ValOKs` (CopyTo side) asks the casts to succeed, the zero literal to be
   understood and nil parents to be absent, but no representation of pointer payloads, no `HolderWF`, no `CustomTyped`; `RTVals`
   asks those. For non-pointer scalars `PrimTyped ⇒ PrimVal` (`primVal_of_primTyped`).
6. deciders `valOKsB`, `rtValsB` (sound: `valOKs_of_b`, `rtVals_of_b`) for concrete values.
7. `Sanity`: all Booleans on BuiltWF's 15-attribute root by `decide +kernel`; `C04_sanity`: MAIN on a concrete value with every
   field set.
8. `Witness`: see 3. / 4.

Open: the descriptor-level conditions of 3. / 4. are stated in prose only (no `reqOKb`-style Boolean on the request with a proof);
`pairOKb` / `ConfigCastsAgree` are sufficient, not shown necessary.
-/
namespace PGT.Proofs.BuiltRT
open PGT PGT.Spec PGT.Props PGT.SchemaTyped PGT.Proofs.BuiltWF PGT.Proofs.BuildErrors PGT.Proofs.ExclusionPrune

-- ======================================================================================================
-- 1. `RT3OK` = IR part + value part
-- ======================================================================================================

/-- the scalar row of a node round-trips, for the kind of the value type the block asserts -/
def ScalarRT (info : FieldInfo) : Prop := ∃ k, PrimRT info k ∧ vkindOf info.tf.valueType = .prim k

mutual
/-- **IR part of `RT3OK`**: everything `RT3OK` says about the node alone (hereditary: at every depth) -/
def RTNode : Field → Prop
  | ⟨info, mapVal, msg, sub⟩ =>
    EmptyOK msg sub ∧
    (info.isPlaceholder = true → info.kind = .primitive ∧ info.oneOfName = "") ∧
    ((info.oneOfName = "" ∧
      match info.kind with
      | .primitive => info.isPlaceholder = true ∨ ScalarRT info
      | .object => vkindOf info.tf.valueType = .obj ∧ RTNodes sub
      | .primitiveList => vkindOf info.tf.valueType = .list ∧ info.isPlaceholder = false ∧ ∃ k, PrimRT info k
      | .objectList => vkindOf info.tf.valueType = .list ∧ vkindOf info.tf.elemValueType = .obj ∧ RTNodes sub
      | .primitiveMap =>
        vkindOf info.tf.valueType = .map ∧ info.isPlaceholder = false ∧
          (mapVal.getD info).tf.elemValueType = info.tf.elemValueType ∧ ∃ k, PrimRT info k
      | .objectMap =>
        vkindOf info.tf.valueType = .map ∧ vkindOf (mapVal.getD info).tf.elemValueType = .obj ∧ RTNodes sub
      | .custom => True) ∨
     (info.oneOfName ≠ "" ∧ info.parentIsOptionalEmbed = false ∧
      match info.kind with
      | .primitive => info.isNullable = false ∧ info.tf.zeroValue ≠ "" ∧ ScalarRT info
      | .object => info.isNullable = true ∧ vkindOf info.tf.valueType = .obj ∧ RTNodes sub
      | _ => False))

/-- … and about pairs of nodes of one level (`SepOK3`) -/
def RTNodes : List Field → Prop
  | [] => True
  | f :: rest => RTNode f ∧ (∀ g ∈ rest, SepOK3 f.info g.info) ∧ RTNodes rest
end

mutual
/-- **value part of `RT3OK`**: typing of the struct value (`PrimVal`, `MsgTyped`, elements, distinct map keys, `CustomTyped`,
and – a fact about the holder of the group in the struct – `HolderWF` for oneof branches) -/
def RTVal : Field → GoVal → Prop
  | ⟨info, _, _, sub⟩, obj =>
    (info.oneOfName = "" →
      match info.kind with
      | .primitive => info.isPlaceholder = true ∨ PrimVal info (getVal info obj)
      | .object => MsgTyped info.isNullable (fun s => RTVals sub s) (getVal info obj)
      | .primitiveList => ∀ e ∈ sliceElems (getVal info obj), PrimVal info e
      | .objectList => ∀ e ∈ sliceElems (getVal info obj), MsgTyped info.isNullable (fun s => RTVals sub s) e
      | .primitiveMap =>
        ((mapElems (getVal info obj)).map (·.1)).Nodup ∧ ∀ e ∈ mapElems (getVal info obj), PrimVal info e.2
      | .objectMap =>
        ((mapElems (getVal info obj)).map (·.1)).Nodup ∧
          ∀ e ∈ mapElems (getVal info obj), MsgTyped info.isNullable (fun s => RTVals sub s) e.2
      | .custom => CustomTyped info.isRepeated (getVal info obj)) ∧
    (info.oneOfName ≠ "" → HolderWF info obj ∧
      match info.kind with
      | .primitive => PrimVal info (getVal info obj)
      | .object => MsgTyped true (fun s => RTVals sub s) (getVal info obj)
      | _ => True)

def RTVals : List Field → GoVal → Prop
  | [], _ => True
  | f :: rest, obj => RTVal f obj ∧ RTVals rest obj
end

theorem msgTyped_mono' (n : Bool) (P Q : GoVal → Prop) (x : GoVal) (hx : MsgTyped n P x)
    (h : ∀ fs, (x = .struct fs ∨ x = .ptr (some (.struct fs))) → P (.struct fs) → Q (.struct fs)) : MsgTyped n Q x := by
  unfold MsgTyped at hx ⊢
  cases n
  · simp only [Bool.false_eq_true, if_false] at hx ⊢
    obtain ⟨fs, hfs, hp⟩ := hx
    exact ⟨fs, hfs, h fs (Or.inl hfs) hp⟩
  · simp only [if_true] at hx ⊢
    rcases hx with hx | ⟨fs, hfs, hp⟩
    · exact Or.inl hx
    · exact Or.inr ⟨fs, hfs, h fs (Or.inr hfs) hp⟩

mutual
/-- **IR part ∧ value part ⇒ `RT3OK`** -/
theorem rt3ok_of_split : ∀ (f : Field) (obj : GoVal), RTNode f → RTVal f obj → RT3OK f obj
  | ⟨info, mapVal, msg, sub⟩, obj, hn, hv => by
    unfold RTNode at hn
    unfold RTVal at hv
    unfold RT3OK
    obtain ⟨he, hp, hcase⟩ := hn
    obtain ⟨hv0, hv1⟩ := hv
    refine ⟨he, hp, ?_⟩
    rcases hcase with ⟨ho, hm⟩ | ⟨ho, hpe, hm⟩
    · left
      refine ⟨ho, ?_⟩
      have hv := hv0 ho
      cases hk : info.kind <;> simp only [hk] at hm hv ⊢
      · rcases hm with hm | ⟨k, h1, h2⟩
        · exact Or.inl hm
        · rcases hv with hv | hv
          · exact Or.inl hv
          · exact Or.inr ⟨k, h1, h2, hv⟩
      · obtain ⟨h1, h2, k, h3⟩ := hm
        exact ⟨h1, h2, k, h3, hv⟩
      · exact ⟨hm.1, msgTyped_mono' _ _ _ _ hv (fun fs _ h => rt3oks_of_split sub _ hm.2 h)⟩
      · exact ⟨hm.1, hm.2.1, fun e hemem => msgTyped_mono' _ _ _ _ (hv e hemem) (fun fs _ h => rt3oks_of_split sub _ hm.2.2 h)⟩
      · obtain ⟨h1, h2, h3, k, h4⟩ := hm
        exact ⟨h1, h2, h3, hv.1, k, h4, hv.2⟩
      · exact ⟨hm.1, hm.2.1, hv.1, fun e hemem => msgTyped_mono' _ _ _ _ (hv.2 e hemem) (fun fs _ h => rt3oks_of_split sub _ hm.2.2 h)⟩
      · exact hv
    · right
      obtain ⟨hw, hv⟩ := hv1 ho
      refine ⟨ho, hpe, hw, ?_⟩
      cases hk : info.kind <;> simp only [hk] at hm hv ⊢
      · obtain ⟨h1, h2, k, h3, h4⟩ := hm
        exact ⟨h1, h2, k, h3, h4, hv⟩
      · exact ⟨hm.1, hm.2.1, msgTyped_mono' _ _ _ _ hv (fun fs _ h => rt3oks_of_split sub _ hm.2.2 h)⟩

theorem rt3oks_of_split : ∀ (fs : List Field) (obj : GoVal), RTNodes fs → RTVals fs obj → RT3OKs fs obj
  | [], _, _, _ => by unfold RT3OKs; trivial
  | f :: rest, obj, hn, hv => by
    unfold RTNodes at hn
    unfold RTVals at hv
    unfold RT3OKs
    exact ⟨rt3ok_of_split f obj hn.1 hv.1, hn.2.1, rt3oks_of_split rest obj hn.2.2 hv.2⟩
end

-- ======================================================================================================
-- 1b. the converse of the split
-- ======================================================================================================

mutual
/-- `RT3OK` ⇒ value part -/
theorem rtVal_of_rt3ok : ∀ (f : Field) (obj : GoVal), RT3OK f obj → RTVal f obj
  | ⟨info, mapVal, msg, sub⟩, obj, h => by
    unfold RT3OK at h
    unfold RTVal
    obtain ⟨_, _, hcase⟩ := h
    rcases hcase with ⟨ho, hm⟩ | ⟨ho, _, hw, hm⟩
    · refine ⟨fun _ => ?_, fun hne => absurd ho hne⟩
      cases hk : info.kind <;> simp only [hk] at hm ⊢
      · rcases hm with hm | ⟨k, _, _, hv⟩
        · exact Or.inl hm
        · exact Or.inr hv
      · obtain ⟨_, _, k, _, hv⟩ := hm
        exact hv
      · exact msgTyped_mono' _ _ _ _ hm.2 (fun fs _ h => rtVals_of_rt3oks sub _ h)
      · exact fun e he => msgTyped_mono' _ _ _ _ (hm.2.2 e he) (fun fs _ h => rtVals_of_rt3oks sub _ h)
      · obtain ⟨_, _, _, hnd, k, _, hv⟩ := hm
        exact ⟨hnd, hv⟩
      · exact ⟨hm.2.2.1, fun e he => msgTyped_mono' _ _ _ _ (hm.2.2.2 e he) (fun fs _ h => rtVals_of_rt3oks sub _ h)⟩
      · exact hm
    · refine ⟨fun h0 => absurd h0 ho, fun _ => ⟨hw, ?_⟩⟩
      cases hk : info.kind <;> simp only [hk] at hm ⊢
      · obtain ⟨_, _, k, _, _, hv⟩ := hm
        exact hv
      · exact msgTyped_mono' _ _ _ _ hm.2.2 (fun fs _ h => rtVals_of_rt3oks sub _ h)
theorem rtVals_of_rt3oks : ∀ (fs : List Field) (obj : GoVal), RT3OKs fs obj → RTVals fs obj
  | [], _, _ => by unfold RTVals; trivial
  | f :: rest, obj, h => by
    unfold RT3OKs at h
    unfold RTVals
    exact ⟨rtVal_of_rt3ok f obj h.1, rtVals_of_rt3oks rest obj h.2.2⟩
end

/-- the IR part at one node, not hereditary: what `RT3OK` says of the node itself -/
def RTNode1 : Field → Prop
  | ⟨info, mapVal, msg, sub⟩ =>
    EmptyOK msg sub ∧
    (info.isPlaceholder = true → info.kind = .primitive ∧ info.oneOfName = "") ∧
    ((info.oneOfName = "" ∧
      match info.kind with
      | .primitive => info.isPlaceholder = true ∨ ScalarRT info
      | .object => vkindOf info.tf.valueType = .obj
      | .primitiveList => vkindOf info.tf.valueType = .list ∧ info.isPlaceholder = false ∧ ∃ k, PrimRT info k
      | .objectList => vkindOf info.tf.valueType = .list ∧ vkindOf info.tf.elemValueType = .obj
      | .primitiveMap =>
        vkindOf info.tf.valueType = .map ∧ info.isPlaceholder = false ∧
          (mapVal.getD info).tf.elemValueType = info.tf.elemValueType ∧ ∃ k, PrimRT info k
      | .objectMap => vkindOf info.tf.valueType = .map ∧ vkindOf (mapVal.getD info).tf.elemValueType = .obj
      | .custom => True) ∨
     (info.oneOfName ≠ "" ∧ info.parentIsOptionalEmbed = false ∧
      match info.kind with
      | .primitive => info.isNullable = false ∧ info.tf.zeroValue ≠ "" ∧ ScalarRT info
      | .object => info.isNullable = true ∧ vkindOf info.tf.valueType = .obj
      | _ => False))

/-- `RT3OK` ⇒ IR part at the node itself -/
theorem rtNode1_of_rt3ok : ∀ (f : Field) (obj : GoVal), RT3OK f obj → RTNode1 f
  | ⟨info, mapVal, msg, sub⟩, obj, h => by
    unfold RT3OK at h
    unfold RTNode1
    obtain ⟨he, hp, hcase⟩ := h
    refine ⟨he, hp, ?_⟩
    rcases hcase with ⟨ho, hm⟩ | ⟨ho, hpe, _, hm⟩
    · left
      refine ⟨ho, ?_⟩
      cases hk : info.kind <;> simp only [hk] at hm ⊢
      · rcases hm with hm | ⟨k, h1, h2, _⟩
        · exact Or.inl hm
        · exact Or.inr ⟨k, h1, h2⟩
      · obtain ⟨h1, h2, k, h3, _⟩ := hm
        exact ⟨h1, h2, k, h3⟩
      · exact hm.1
      · exact ⟨hm.1, hm.2.1⟩
      · obtain ⟨h1, h2, h3, _, k, h4, _⟩ := hm
        exact ⟨h1, h2, h3, k, h4⟩
      · exact ⟨hm.1, hm.2.1⟩
    · right
      refine ⟨ho, hpe, ?_⟩
      cases hk : info.kind <;> simp only [hk] at hm ⊢
      · obtain ⟨h1, h2, k, h3, h4, _⟩ := hm
        exact ⟨h1, h2, k, h3, h4⟩
      · exact ⟨hm.1, hm.2.1⟩

/-- `RT3OKs` ⇒ IR part of the level: every node (itself) and every pair of siblings -/
theorem rtLevel_of_rt3oks : ∀ (fs : List Field) (obj : GoVal), RT3OKs fs obj →
    (∀ f ∈ fs, RTNode1 f) ∧ fs.Pairwise (fun f g => SepOK3 f.info g.info)
  | [], _, _ => ⟨fun f hf => (by cases hf), List.Pairwise.nil⟩
  | f :: rest, obj, h => by
    unfold RT3OKs at h
    obtain ⟨h1, h2⟩ := rtLevel_of_rt3oks rest obj h.2.2
    refine ⟨fun g hg => ?_, List.Pairwise.cons h.2.1 h2⟩
    rcases List.mem_cons.mp hg with rfl | hg
    · exact rtNode1_of_rt3ok _ obj h.1
    · exact h1 g hg

/-- the split as an equivalence, with the hereditary IR part: FALSE – a nil pointer / empty list / empty map does not witness
the node facts of the nested message (`rt3oks_iff_full_false`). What holds: `rt3oks_of_split` (⇐), `rtVals_of_rt3oks` and
`rtLevel_of_rt3oks` (⇒: value part at every depth, IR part at the level itself). -/
def rt3oks_iff_full : Prop := ∀ (fs : List Field) (obj : GoVal), RT3OKs fs obj ↔ RTNodes fs ∧ RTVals fs obj

namespace SplitEx
def tyO : String := "github.com/hashicorp/terraform-plugin-framework/types.Object"
/-- an ill-formed node: a placeholder that is a list -/
def bad : Field := { info := { name := "X", nameSnake := "x", kind := .primitiveList, isPlaceholder := true } }
def top : Field :=
  { info := { name := "N", nameSnake := "n", kind := .object, isNullable := true, tf := { valueType := tyO } }, sub := [bad] }
end SplitEx

open SplitEx in
theorem rt3oks_iff_full_false : ¬ rt3oks_iff_full := by
  intro h
  have h3 : RT3OKs [top] (.struct []) := by
    unfold RT3OKs
    refine ⟨?_, fun g hg => (by cases hg), by unfold RT3OKs; trivial⟩
    unfold top RT3OK
    refine ⟨fun he => (by cases he), fun hp => (by cases hp), Or.inl ⟨rfl, ?_⟩⟩
    show vkindOf tyO = .obj ∧ MsgTyped true _ (getVal _ (.struct []))
    refine ⟨by decide, ?_⟩
    unfold MsgTyped
    simp only [if_true]
    exact Or.inl rfl
  have hn := ((h [top] (.struct [])).mp h3).1
  unfold RTNodes top RTNode at hn
  obtain ⟨⟨_, _, hcase⟩, _⟩ := hn
  rcases hcase with ⟨_, hm⟩ | ⟨ho, _⟩
  · have hm2 : RTNodes [bad] := hm.2
    unfold RTNodes bad RTNode at hm2
    have := hm2.1.2.1 rfl
    cases this.1
  · exact ho rfl


-- ======================================================================================================
-- 2. `PrimRT` from the table
-- ======================================================================================================

section float
open PGT.F PGT.F.Kernel

/-- float32 -> float64 -> float32 maps every NaN to a NaN (with `F.narrow_widen`: the float32 row round-trips in normal form on
ALL 2^32 bit patterns) -/
theorem narrow_widen_nan (x : BitVec 32) (h : isNaN32 x = true) : isNaN32 (narrow32 (widen64 x)) = true := by
  obtain ⟨hsign, he, hm⟩ := split32 x
  have hx := x.isLt
  unfold isNaN32 at h
  rw [widen64_eq]
  generalize hS : ((x >>> 31).zeroExtend 64) <<< 63 = sign at *
  generalize hEe : (x >>> 23) &&& 0xff#32 = e at *
  generalize hMm : x &&& 0x7fffff#32 = m at *
  have hs : x.toNat / 2 ^ 31 < 2 := by omega
  have hmlt : m.toNat < 2 ^ 23 := by omega
  simp only [Bool.and_eq_true] at h
  obtain ⟨h1, h2⟩ := h
  have h2' : (m == 0#32) = false := by simpa using h2
  unfold widen64'
  simp only [h1, h2', Bool.false_eq_true, if_false, if_true]
  generalize hY : (0x7ff8000000000000#64 ||| ((m.zeroExtend 64) <<< 29)) = Yv
  have hlt : Yv.toNat < 2 ^ 63 := by
    rw [← hY, BitVec.toNat_or]
    apply Nat.or_lt_two_pow
    · decide
    · rw [BitVec.toNat_shiftLeft, BitVec.toNat_setWidth, Nat.shiftLeft_eq]; omega
  have hge : 0x7ff8000000000000 ≤ Yv.toNat := by
    rw [← hY, BitVec.toNat_or]
    exact @Nat.left_le_or (0x7ff8000000000000#64).toNat (BitVec.zeroExtend 64 m <<< 29).toNat
  have hy : (sign ||| 0x7ff8000000000000#64 ||| ((m.zeroExtend 64) <<< 29)).toNat =
      (x.toNat / 2 ^ 31) * 2 ^ 63 + 2047 * 2 ^ 52 + (Yv.toNat - 2047 * 2 ^ 52) := by
    rw [BitVec.or_assoc, hY, BitVec.toNat_or, hsign, or_eq_add _ _ _ hlt]
    omega
  generalize (sign ||| 0x7ff8000000000000#64 ||| ((m.zeroExtend 64) <<< 29)) = y at hy
  obtain ⟨g1, g2, g3⟩ := split64 y _ 2047 (Yv.toNat - 2047 * 2 ^ 52) hs (by omega) (by omega) hy
  rw [narrow32_eq]
  have e2 : ((y >>> 52) &&& 0x7ff#64 == 0x7ff#64) = true := by
    rw [beq_iff_eq]; exact BitVec.eq_of_toNat_eq g2
  have e3 : ((y &&& 0xfffffffffffff#64) == 0#64) = false := by
    simp [BitVec.toNat_eq, g3]; omega
  unfold narrow32'
  simp only [e2, e3, Bool.false_eq_true, if_false, if_true]
  generalize hT : (((y &&& 0xfffffffffffff#64) >>> 29).truncate 32 : BitVec 32) = t
  have ht : t.toNat < 2 ^ 23 := by
    rw [← hT, BitVec.toNat_setWidth, BitVec.toNat_ushiftRight, Nat.shiftRight_eq_div_pow, g3]
    omega
  generalize hZ : (0x7fc00000#32 ||| t) = Zv
  have hzlt : Zv.toNat < 2 ^ 31 := by
    rw [← hZ, BitVec.toNat_or]
    apply Nat.or_lt_two_pow
    · decide
    · omega
  have hzge : 0x7fc00000 ≤ Zv.toNat := by
    rw [← hZ, BitVec.toNat_or]
    exact @Nat.left_le_or (0x7fc00000#32).toNat t.toNat
  generalize hSg : (((y >>> 63).truncate 32 : BitVec 32) <<< 31) = sg at g1
  have hr : (sg ||| 0x7fc00000#32 ||| t).toNat = (x.toNat / 2 ^ 31) * 2 ^ 31 + Zv.toNat := by
    rw [BitVec.or_assoc, hZ, BitVec.toNat_or, g1, or_eq_add _ _ _ hzlt]
  generalize (sg ||| 0x7fc00000#32 ||| t) = r at hr
  obtain ⟨_, r2, r3⟩ := split32 r
  unfold isNaN32
  have q1 : ((r >>> 23) &&& 0xff#32) = 0xff#32 := by
    apply BitVec.eq_of_toNat_eq
    rw [r2, hr]
    show _ = 255
    omega
  have q2 : ((r &&& 0x7fffff#32) != 0#32) = true := by
    simp [BitVec.toNat_eq, r3, hr]; omega
  rw [q1, q2]; rfl


end float

/-- the pairs (representation of `ValueCastToType`, Terraform value kind) for which `castFrom (castTo x) = x` in normal form for
EVERY Go representation of the field and every value (a cast that is not modelled makes the statement vacuous) -/
def pairOKb (dst : Option GoRep) (k : PrimK) : Bool :=
  match dst, k with
  | none, _ => true
  | some .str, .string => true
  | some .i64, .int64 => true
  | some .f64, .float64 => true
  | some .b, .bool => true
  | some .time, .time => true
  | some .dur, .duration => true
  | _, _ => false

open PGT.F in
theorem f32_rt (v : BitVec 32) : scNfEq (.f32 (narrow32 (widen64 v))) (.f32 v) = true := by
  cases h : isNaN32 v with
  | false => rw [F.narrow_widen v h]; exact scNfEq_refl' _
  | true => simp [scNfEq, h, narrow_widen_nan v h]

theorem i32_rt (v : BitVec 32) : scNfEq (.w32 ((v.signExtend 64).truncate 32)) (.w32 v) = true := by
  rw [C19.C19_i32]; exact scNfEq_refl' _
theorem u32_rt (v : BitVec 32) : scNfEq (.w32 ((v.zeroExtend 64).truncate 32)) (.w32 v) = true := by
  rw [C19.C19_u32]; exact scNfEq_refl' _
theorem bytes_rt (v : Option (List UInt8)) : scNfEq (.bytes (some (v.getD []))) (.bytes v) = true := by
  simp [scNfEq]

theorem pair_inv (dst : Option GoRep) (k : PrimK) (rep : GoRep) (s c : Sc)
    (hs : C19.HasRep rep s) (hc : (match dst with | some d => conv rep d s | none => none) = some c)
    (h : pairOKb dst k = true) :
    ∃ y, conv k.rep rep c = some y ∧ scNfEq y s = true := by
  cases dst with
  | none => cases hc
  | some d =>
    simp only at hc
    cases d <;> cases k <;> simp only [pairOKb] at h <;> try (cases h)
    all_goals
      cases rep <;> cases s <;> simp only [C19.HasRep] at hs <;> simp only [conv] at hc <;> try (cases hc)
    all_goals first
      | exact ⟨_, rfl, scNfEq_refl' _⟩
      | exact ⟨_, rfl, f32_rt _⟩
      | exact ⟨_, rfl, i32_rt _⟩
      | exact ⟨_, rfl, u32_rt _⟩
      | exact ⟨_, rfl, bytes_rt _⟩


/-- **`PrimRT` from two Booleans on the node** (no hypothesis on the field's own representation): the pair (cast-to type, value
kind) is one of the six good pairs, and a pointer-backed scalar has the representation of the value kind's payload -/
theorem primRT_of_pair (info : FieldInfo) (k : PrimK) (hek : vkindOf info.tf.elemValueType = .prim k)
    (hp : pairOKb (repOfGoType info.tf.valueCastToType) k = true)
    (hn : info.isNullable = true → k.rep = info.rep) : PrimRT info k where
  ek := hek
  inv := by
    intro s c hs hc
    exact pair_inv _ k info.rep s c hs hc hp
  invPtr := by
    intro hnn s hs
    refine ⟨s, ?_, scNfEq_refl' s⟩
    simp [FieldInfo.castFrom, hn hnn, conv_self _ _ hs]

/-- every base record of the regenerated table carries a good pair -/
theorem bases_pairOK : ∀ b ∈ Generated.bases, ∀ k, vkindOf b.elemValueType = .prim k →
    pairOKb (repOfGoType b.valueCastToType) k = true := by
  intro b hb k hk
  have : ∀ b ∈ Generated.bases, (match vkindOf b.elemValueType with
      | .prim k => pairOKb (repOfGoType b.valueCastToType) k | _ => true) = true := by decide
  have h := this b hb
  rw [hk] at h
  exact h

/-- where the pair (`ValueCastToType`, `ElemValueType`) of a record comes from: a base record of the table, or the configured
time / duration type -/
def CastSrc (V : CfgView) (tf : TfType) : Prop :=
  (∃ b ∈ Generated.bases, tf.valueCastToType = b.valueCastToType ∧ tf.elemValueType = b.elemValueType) ∨
  (∃ s, (V.timeType = some s ∨ V.durationType = some s) ∧ tf.valueCastToType = s.castToType ∧ tf.elemValueType = s.valueType)

/-- **`GetTerraformType` and the casts**: whatever record it returns, (`ValueCastToType`, `ElemValueType`) is the pair of a base
record or of the configured time / duration type (the statements after the switch change `Type`, `ValueType`,
`ValueCastFromType` only) -/
theorem getTerraformType_casts (cfg : CfgView) (f : FieldD) (isMap isRep : Bool) (goType path : String) (t : TfType)
    (h : getTerraformType cfg f isMap isRep goType path = .ok t) : CastSrc cfg t := by
  unfold getTerraformType at h
  simp only at h
  cases hfind : Generated.typeRows.find? (rowMatches cfg f isMap) with
  | none => simp [hfind] at h
  | some r =>
    simp only [hfind] at h
    by_cases h1 : (r.kind == "time") = true
    · simp only [h1, if_true] at h
      cases ht : cfg.timeType with
      | none => simp [ht] at h
      | some s =>
        simp only [ht] at h
        injection h with h
        subst h
        refine Or.inr ⟨s, Or.inl ht, ?_, ?_⟩ <;> (repeat' split) <;> rfl
    · simp only [h1, Bool.false_eq_true, if_false] at h
      by_cases h2 : (r.kind == "duration") = true
      · simp only [h2, if_true] at h
        cases ht : cfg.durationType with
        | none => simp [ht] at h
        | some s =>
          simp only [ht] at h
          injection h with h
          subst h
          refine Or.inr ⟨s, Or.inr ht, ?_, ?_⟩ <;> (repeat' split) <;> rfl
      · simp only [h2, Bool.false_eq_true, if_false] at h
        by_cases h3 : (r.kind == "default") = true
        · simp [h3] at h
        · simp only [h3, Bool.false_eq_true, if_false] at h
          cases hb : Generated.bases.find? (fun b => b.name == r.base) with
          | none => simp [hb] at h
          | some b =>
            simp only [hb] at h
            have hbm : b ∈ Generated.bases := List.mem_of_find?_eq_some hb
            refine Or.inl ⟨b, hbm, ?_⟩
            cases isRep <;> cases isMap <;> cases hm : r.isMessage <;>
              by_cases hc : (f.castType != "") = true <;>
              by_cases hcf1 : (r.castFrom == "<elem>") = true <;>
              by_cases hcf2 : (r.castFrom != "") = true <;>
              simp only [hm, hc, hcf1, hcf2, Bool.false_eq_true, if_false, if_true] at h <;>
              injection h with h <;> subst h <;> simp [tfTypeOfBase]

/-- the configured time / duration types carry a good pair: what `built_primRT` needs of the configuration beyond
`ConfigTypesAgree`. For the kinds `vkindOf` knows: value type `…TimeValue` ⇒ `cast_to_type` is `time.Time` (or a type the
model does not know: then CopyTo of a non-nil value is stuck anyway); `…DurationValue` ⇒ `time.Duration`;
`String` / `Int64` / `Float64` / `Bool` ⇒ `string` / `int64` / `float64` / `bool`. -/
def ConfigCastsAgree (V : CfgView) : Prop :=
  ∀ s, (V.timeType = some s ∨ V.durationType = some s) → ∀ k, vkindOf s.valueType = .prim k →
    pairOKb (repOfGoType s.castToType) k = true

theorem castSrc_pair {V : CfgView} (hcc : ConfigCastsAgree V) {tf : TfType} (h : CastSrc V tf) (k : PrimK)
    (hk : vkindOf tf.elemValueType = .prim k) : pairOKb (repOfGoType tf.valueCastToType) k = true := by
  rcases h with ⟨b, hb, h1, h2⟩ | ⟨s, hs, h1, h2⟩
  · rw [h1]; exact bases_pairOK b hb k (by rw [← h2]; exact hk)
  · rw [h1]; exact hcc s hs k (by rw [← h2]; exact hk)

/-- the node-level invariant: the record's cast pair comes from the table or the configuration -/
def CastP (V : CfgView) : FieldInfo → Option FieldInfo → Option MsgInfo → List Field → Prop :=
  fun info _ _ _ => CastSrc V info.tf

theorem allNodes_unfold (P : FieldInfo → Option FieldInfo → Option MsgInfo → List Field → Prop) (x : Field) :
    AllNodes P x ↔ P x.info x.mapVal x.msg x.sub ∧ AllNodess P x.sub := by
  obtain ⟨info, mv, msg, sub⟩ := x
  rw [AllNodes]

theorem allNodess_iff (P : FieldInfo → Option FieldInfo → Option MsgInfo → List Field → Prop) :
    ∀ fs : List Field, AllNodess P fs ↔ ∀ f ∈ fs, AllNodes P f
  | [] => by rw [AllNodess]; simp
  | f :: fs => by rw [AllNodess, allNodess_iff P fs]; simp

theorem castP_mark (V : CfgView) (a b : String) (x : Field) (h : AllNodes (CastP V) x) :
    AllNodes (CastP V) (markEmbedded a b x) := by
  obtain ⟨info, mv, msg, sub⟩ := x
  rw [allNodes_unfold] at h ⊢
  exact h

theorem castP_placeholder (V : CfgView) (p : String) : AllNodes (CastP V) (placeholderField p) := by
  rw [allNodes_unfold]
  refine ⟨Or.inl ?_, by show AllNodess _ []; rw [AllNodess]; trivial⟩
  have : ∃ b ∈ Generated.bases, phTf.valueCastToType = b.valueCastToType ∧ phTf.elemValueType = b.elemValueType := by decide
  exact this

/-- one block -/
theorem coreStep_cast (V : CfgView) (req : Request) (ctx : MsgCtx) (f : FieldD) (keys : Keys)
    (goType : String) (isMap isRep hasComment : Bool)
    (bm : MsgD → Except BuildError Msg) (bv : Except BuildError (List Field))
    (hbm : ∀ d m, bm d = .ok m → AllNodess (CastP V) m.fields)
    (hbv : ∀ r, bv = .ok r → ∀ x ∈ r, AllNodes (CastP V) x)
    (r : List Field) (h : coreStep V req ctx f keys goType isMap isRep hasComment bm bv = .ok r) :
    ∀ x ∈ r, AllNodes (CastP V) x := by
  rcases coreStep_ok_inv V req ctx f keys goType isMap isRep hasComment bm bv r h with
    ⟨_, rfl⟩ | ⟨_, tf, htf, hcase⟩
  · intro x hx; cases hx
  · have hsrc := getTerraformType_casts V f isMap isRep goType keys.path tf htf
    rcases hcase with ⟨rfl, hm, d, m, hfind, hb, hr⟩ | ⟨rfl, hm, rfl⟩ | ⟨rfl, hk, v, vs, hv, rfl⟩
    · have hB := hbm d m hb
      rcases hr with ⟨hemb, rfl⟩ | ⟨hemb, rfl⟩
      · intro x hx
        rcases spliced_mem goType m x hx with hx | ⟨a, b, y, hy, rfl⟩
        · exact (allNodess_iff _ _).mp hB x hx
        · exact castP_mark V a b y ((allNodess_iff _ _).mp hB y hy)
      · intro x hx
        rw [List.mem_singleton] at hx; subst hx
        rw [allNodes_unfold, mkNode_sub_none_some]
        refine ⟨?_, hB⟩
        show CastSrc V _
        rw [mkNode_tf_none]; exact hsrc
    · intro x hx
      rw [List.mem_singleton] at hx; subst hx
      rw [allNodes_unfold, mkNode_sub_none_none]
      refine ⟨?_, by rw [AllNodess]; trivial⟩
      show CastSrc V _
      rw [mkNode_tf_none]; exact hsrc
    · intro x hx
      rw [List.mem_singleton] at hx; subst hx
      have hvA := hbv _ hv v List.mem_cons_self
      rw [allNodes_unfold] at hvA
      rw [allNodes_unfold, mkNode_sub_some]
      refine ⟨?_, hvA.2⟩
      show CastSrc V _
      rw [mkNode_tf_some]
      exact hvA.1

/-- **the cast invariant holds at every node of every built IR** (every fuel, view, request, descriptor; no hypothesis) -/
theorem cast_all (V : CfgView) (req : Request) : ∀ n : Nat,
    (∀ desc isRoot path m, buildMessage n V req desc isRoot path = .ok m → AllNodess (CastP V) m.fields) ∧
    (∀ ctx f keys goType isMap isRep hasComment r,
        buildFieldCore n V req ctx f keys goType isMap isRep hasComment = .ok r → ∀ x ∈ r, AllNodes (CastP V) x) := by
  intro n
  induction n with
  | zero =>
    constructor
    · intro desc isRoot path m h; rw [buildMessage_zero] at h; cases h
    · intro ctx f keys goType isMap isRep hc r h; rw [buildFieldCore_zero] at h; cases h
  | succ n ih =>
    obtain ⟨ihM, ihF⟩ := ih
    constructor
    · intro desc isRoot path m h
      rw [buildMessage_succ] at h
      obtain ⟨h1, _, _⟩ := msgStep_built V desc isRoot path _ m (AllNodes (CastP V)) (castP_placeholder V)
        (fun fs hfs x hx => by
          obtain ⟨b, _, r, hr, hxr⟩ := collect_mem _ desc.fields fs hfs x hx
          exact ihF _ b _ _ _ _ _ r hr x hxr) h
      exact (allNodess_iff _ _).mpr h1
    · intro ctx f keys goType isMap isRep hc r h
      rw [buildFieldCore_succ] at h
      refine coreStep_cast V req ctx f keys goType isMap isRep hc _ _ ?_ ?_ r h
      · intro d m hb
        exact ihM d false keys.path m hb
      · intro r' hr' x hx
        exact ihF ctx f.mapValueField keys _ false false false r' hr' x hx

theorem built_casts (fuel : Nat) (V : CfgView) (req : Request) (desc : MsgD) (isRoot : Bool) (path : String) (m : Msg)
    (h : buildMessage fuel V req desc isRoot path = .ok m) : AllNodess (CastP V) m.fields :=
  (cast_all V req fuel).1 desc isRoot path m h

-- ======================================================================================================
-- 3. / 4. what the build does not guarantee: three Booleans on the IR (branches, pointer-backed scalars, separation)
-- ======================================================================================================

/-- `SepOK3` as a Boolean -/
def sepB (f g : FieldInfo) : Bool :=
  !(wkey3 f == wkey3 g) ||
  (!f.parentIsOptionalEmbed && !g.parentIsOptionalEmbed && f.oneOfName != "" && g.oneOfName == f.oneOfName &&
    lastSegment f.oneOfType != lastSegment g.oneOfType) ||
  (f.parentIsOptionalEmbed && g.parentIsOptionalEmbed && f.name != g.name)

theorem sepB_iff (f g : FieldInfo) : sepB f g = true ↔ SepOK3 f g := by
  unfold sepB SepOK3
  by_cases hw : wkey3 f = wkey3 g
  · simp only [hw, beq_self_eq_true, Bool.not_true, Bool.false_or, Bool.or_eq_true, Bool.and_eq_true, Bool.not_eq_true',
      bne_iff_ne, ne_eq, beq_iff_eq, forall_const]
    constructor
    · rintro (⟨⟨⟨⟨h1, h2⟩, h3⟩, h4⟩, h5⟩ | ⟨⟨h1, h2⟩, h3⟩)
      · exact Or.inl ⟨h1, h2, h3, h4, h5⟩
      · exact Or.inr ⟨h1, h2, h3⟩
    · rintro (⟨h1, h2, h3, h4, h5⟩ | ⟨h1, h2, h3⟩)
      · exact Or.inl ⟨⟨⟨⟨h1, h2⟩, h3⟩, h4⟩, h5⟩
      · exact Or.inr ⟨⟨h1, h2⟩, h3⟩
  · have : (wkey3 f == wkey3 g) = false := by simpa using hw
    simp only [this, Bool.not_false, Bool.true_or, true_iff]
    intro h; exact absurd h hw

/-- a pointer-backed scalar has the representation of the payload of its value kind (`PrimRT.invPtr`) -/
def ptrB (info : FieldInfo) : Bool :=
  !info.isNullable || (match vkindOf info.tf.elemValueType with | .prim k => k.rep == info.rep | _ => false)

/-- the oneof-branch clauses of `RT3OK` that are not part of `IRWF`: a scalar branch is not pointer-backed and has a zero
literal, a message branch is a pointer -/
def branchB (info : FieldInfo) : Bool :=
  info.oneOfName == "" ||
  (match info.kind with
   | .primitive => !info.isNullable && info.tf.zeroValue != ""
   | .object => info.isNullable
   | _ => true)

mutual
/-- **the residual condition of the round trip, a Boolean on the IR** (every depth): `branchB` at every node, `ptrB` at the
scalar nodes, `sepB` between siblings -/
def rtB : Field → Bool
  | ⟨info, _, _, sub⟩ =>
    branchB info &&
    (match info.kind with | .primitive | .primitiveList | .primitiveMap => ptrB info | _ => true) &&
    rtBs sub
def rtBs : List Field → Bool
  | [] => true
  | f :: rest => rtB f && rest.all (fun g => sepB f.info g.info) && rtBs rest
end


mutual
/-- the three parts of `rtB`, each a hereditary Boolean of its own: oneof branches … -/
def branchOKB : Field → Bool
  | ⟨info, _, _, sub⟩ => branchB info && branchOKsB sub
def branchOKsB : List Field → Bool
  | [] => true
  | f :: rest => branchOKB f && branchOKsB rest
end

mutual
/-- … pointer-backed scalars … -/
def ptrOKB : Field → Bool
  | ⟨info, _, _, sub⟩ =>
    (match info.kind with | .primitive | .primitiveList | .primitiveMap => ptrB info | _ => true) && ptrOKsB sub
def ptrOKsB : List Field → Bool
  | [] => true
  | f :: rest => ptrOKB f && ptrOKsB rest
end

mutual
/-- … and **name hygiene**: per level, two nodes assign different Go fields (`info.name`, the holder `oneOfName`, the parent
pointer `parentIsOptionalEmbedFieldName`) unless they are branches of one group with different wrapper types or children of one
nullable embedded message with different names (`sepB_iff : sepB f g = true ↔ SepOK3 f g`) -/
def sepOKB : Field → Bool
  | ⟨_, _, _, sub⟩ => sepOKsB sub
def sepOKsB : List Field → Bool
  | [] => true
  | f :: rest => rest.all (fun g => sepB f.info g.info) && sepOKB f && sepOKsB rest
end

mutual
theorem rtB_iff : ∀ f : Field, rtB f = true ↔ branchOKB f = true ∧ ptrOKB f = true ∧ sepOKB f = true
  | ⟨info, mv, msg, sub⟩ => by
    unfold rtB branchOKB ptrOKB sepOKB
    simp only [Bool.and_eq_true]
    rw [rtBs_iff sub]
    constructor
    · rintro ⟨⟨h1, h2⟩, h3, h4, h5⟩
      exact ⟨⟨h1, h3⟩, ⟨h2, h4⟩, h5⟩
    · rintro ⟨⟨h1, h3⟩, ⟨h2, h4⟩, h5⟩
      exact ⟨⟨h1, h2⟩, h3, h4, h5⟩
/-- **`rtBs` = branches ∧ pointer-backed scalars ∧ name hygiene** -/
theorem rtBs_iff : ∀ fs : List Field, rtBs fs = true ↔ branchOKsB fs = true ∧ ptrOKsB fs = true ∧ sepOKsB fs = true
  | [] => by unfold rtBs branchOKsB ptrOKsB sepOKsB; simp
  | f :: rest => by
    unfold rtBs branchOKsB ptrOKsB sepOKsB
    simp only [Bool.and_eq_true]
    rw [rtB_iff f, rtBs_iff rest]
    constructor
    · rintro ⟨⟨⟨h1, h2, h3⟩, h4⟩, h5, h6, h7⟩
      exact ⟨⟨h1, h5⟩, ⟨h2, h6⟩, ⟨h4, h3⟩, h7⟩
    · rintro ⟨⟨h1, h5⟩, ⟨h2, h6⟩, ⟨h4, h3⟩, h7⟩
      exact ⟨⟨⟨h1, h2, h3⟩, h4⟩, h5, h6, h7⟩
end

/-- **`built_primRT`**: every scalar node (primitive, list of scalars, map of scalars: the node's own record, which for a map
carries the casts of the value field) of a built IR satisfies `PrimRT` for the kind of its element value type, provided the
configured time / duration types agree (`ConfigTypesAgree`), carry a good cast pair (`ConfigCastsAgree`) and – the one fact the
build does not give – a pointer-backed scalar has the payload's representation (`ptrB`) -/
theorem built_primRT {V : CfgView} (hc : ConfigTypesAgree V) (hcc : ConfigCastsAgree V) (info : FieldInfo)
    (mv : Option FieldInfo) (msg : Option MsgInfo) (sub : List Field) (hb : Built V ⟨info, mv, msg, sub⟩)
    (hsrc : CastSrc V info.tf)
    (hk : info.kind = .primitive ∨ info.kind = .primitiveList ∨ info.kind = .primitiveMap) (hp : ptrB info = true) :
    ∃ k, PrimRT info k ∧ vkindOf info.tf.elemValueType = .prim k := by
  have coh := built_nodeCoh hc info mv msg sub hb
  obtain ⟨k, hk1, _⟩ := coh.primElem hk
  refine ⟨k, primRT_of_pair info k hk1 (castSrc_pair hcc hsrc k hk1) ?_, hk1⟩
  intro hn
  unfold ptrB at hp
  simp only [hn, Bool.not_true, Bool.false_or, hk1, beq_iff_eq] at hp
  exact hp

mutual
/-- **the IR part of `RT3OK` for built IRs**: `Built` (BuiltWF), the cast invariant, `IRWF` (= no gap + distinct names for
built IRs) and the Boolean `rtB` -/
theorem rtNode_of_built {V : CfgView} (hc : ConfigTypesAgree V) (hcc : ConfigCastsAgree V) :
    ∀ f : Field, Built V f → AllNodes (CastP V) f → IRWF f → rtB f = true → RTNode f
  | ⟨info, mv, msg, sub⟩, hb, hca, hwf, hB => by
    have coh := built_nodeCoh hc info mv msg sub hb
    have hprim := built_primRT hc hcc info mv msg sub hb
    rw [Built] at hb
    obtain ⟨hi, _, _, hsub⟩ := hb
    rw [AllNodes] at hca
    obtain ⟨hsrc, hcasub⟩ := hca
    unfold IRWF at hwf
    obtain ⟨hemb, hwfk⟩ := hwf
    unfold rtB at hB
    simp only [Bool.and_eq_true] at hB
    obtain ⟨⟨hbr, hptr⟩, hsubB⟩ := hB
    have hshape := coh.shape
    unfold PriorIndep.shapeOKb at hshape
    unfold RTNode
    refine ⟨coh.empty, coh.ph, ?_⟩
    by_cases ho : info.oneOfName = ""
    · left
      refine ⟨ho, ?_⟩
      cases hk : info.kind <;> simp only [hk] at hwfk hptr hshape ⊢
      · -- primitive
        right
        obtain ⟨k, h1, h2⟩ := hprim hsrc (Or.inl hk) hptr
        obtain ⟨hr, hm⟩ := coh.singleFlags (Or.inl hk)
        exact ⟨k, h1, by rw [(hi.nonMap hm).2.2.1 hr]; exact h2⟩
      · -- primitiveList
        obtain ⟨k, h1, _⟩ := hprim hsrc (Or.inr (Or.inl hk)) hptr
        exact ⟨by simpa using hshape, hwfk.2.2.1, k, h1⟩
      · -- object
        exact ⟨by simpa using hshape, rtNodes_of_built hc hcc sub hsub hcasub hwfk.2 hsubB⟩
      · -- objectList
        exact ⟨by simpa using hshape, (coh.objElem (Or.inr (Or.inl hk))).1,
          rtNodes_of_built hc hcc sub hsub hcasub hwfk.2.2.2.2.2 hsubB⟩
      · -- primitiveMap
        obtain ⟨k, h1, _⟩ := hprim hsrc (Or.inr (Or.inr hk)) hptr
        exact ⟨by simpa using hshape, hwfk.2.2.1, coh.mvElem.1, k, h1⟩
      · -- objectMap
        exact ⟨by simpa using hshape, (coh.objElem (Or.inr (Or.inr hk))).2,
          rtNodes_of_built hc hcc sub hsub hcasub hwfk.2.2.2.2.2 hsubB⟩
    · right
      have hpe : info.parentIsOptionalEmbed = false := by
        cases hp : info.parentIsOptionalEmbed with
        | false => rfl
        | true => exact absurd (hemb hp) ho
      refine ⟨ho, hpe, ?_⟩
      have hoB : (info.oneOfName == "") = false := by simpa using ho
      unfold branchB at hbr
      simp only [hoB, Bool.false_or] at hbr
      cases hk : info.kind <;> simp only [hk] at hwfk hptr hshape hbr ⊢
      · -- primitive
        obtain ⟨k, h1, h2⟩ := hprim hsrc (Or.inl hk) hptr
        obtain ⟨hr, hm⟩ := coh.singleFlags (Or.inl hk)
        simp only [Bool.and_eq_true, Bool.not_eq_true', bne_iff_ne, ne_eq] at hbr
        exact ⟨hbr.1, hbr.2, k, h1, by rw [(hi.nonMap hm).2.2.1 hr]; exact h2⟩
      · exact ho hwfk.2.1
      · exact ⟨hbr, by simpa using hshape, rtNodes_of_built hc hcc sub hsub hcasub hwfk.2 hsubB⟩
      · exact ho hwfk.2.1
      · exact ho hwfk.2.1
      · exact ho hwfk.2.1
      · exact ho hwfk

theorem rtNodes_of_built {V : CfgView} (hc : ConfigTypesAgree V) (hcc : ConfigCastsAgree V) :
    ∀ fs : List Field, Builts V fs → AllNodess (CastP V) fs → IRWFs fs → rtBs fs = true → RTNodes fs
  | [], _, _, _, _ => by unfold RTNodes; trivial
  | f :: rest, hb, hca, hwf, hB => by
    rw [Builts] at hb
    rw [AllNodess] at hca
    unfold IRWFs at hwf
    unfold rtBs at hB
    simp only [Bool.and_eq_true, List.all_eq_true] at hB
    unfold RTNodes
    exact ⟨rtNode_of_built hc hcc f hb.1 hca.1 hwf.1 hB.1.1, fun g hg => (sepB_iff _ _).mp (hB.1.2 g hg),
      rtNodes_of_built hc hcc rest hb.2 hca.2 hwf.2.2 hB.2⟩
end

-- ======================================================================================================
-- 5. MAIN: C04 for every root the generator builds and every typed struct value
-- ======================================================================================================

/-- the cast pair of a configured type, as a Boolean on the configuration -/
def schemaCastOKb (s : SchemaTypeC) : Bool :=
  match vkindOf s.valueType with
  | .prim k => pairOKb (repOfGoType s.castToType) k
  | _ => true

def cfgCastsB (cfg : Config) : Bool :=
  (cfg.timeType.map schemaCastOKb).getD true && (cfg.durationType.map schemaCastOKb).getD true

theorem configCastsAgree_of_b (cfg : Config) (h : cfgCastsB cfg = true) : ConfigCastsAgree (viewOf cfg) := by
  unfold cfgCastsB at h
  simp only [Bool.and_eq_true] at h
  intro s hs k hk
  have key : schemaCastOKb s = true := by
    rcases hs with hs | hs
    · have hs' : cfg.timeType = some s := hs
      have := h.1
      rw [hs'] at this
      exact this
    · have hs' : cfg.durationType = some s := hs
      have := h.2
      rw [hs'] at this
      exact this
  unfold schemaCastOKb at key
  rw [hk] at key
  exact key

/-- **the IR part of `RT3OK` holds for a built message** whose IR has no gap, distinct names and satisfies `rtBs` -/
theorem built_rtNodes (fuel : Nat) (V : CfgView) (req : Request) (desc : MsgD) (isRoot : Bool) (path : String) (m : Msg)
    (h : buildMessage fuel V req desc isRoot path = .ok m) (hc : ConfigTypesAgree V) (hcc : ConfigCastsAgree V)
    (hg : gapFreeBs m.fields = true) (hn : namesOKsB m.fields = true) (hrt : rtBs m.fields = true) : RTNodes m.fields :=
  rtNodes_of_built hc hcc m.fields (built_message V req fuel desc isRoot path m h) (built_casts fuel V req desc isRoot path m h)
    ((built_irwfs_iff fuel V req desc isRoot path m h hc).mpr ⟨hg, hn⟩) hrt

/-- **MAIN. C04 for every root the generator builds, every typed struct value**: the configured time / duration types agree
(`ConfigTypesAgree`, `ConfigCastsAgree`: conditions on the configuration); the built IR has no gap, pairwise distinct attribute
names per level and satisfies `rtBs` (three Booleans evaluated on `m`); then for every struct value typed for the IR
(`ValOKs`: what CopyTo needs; `RTVals`: what reading back needs) CopyTo into the empty schema-typed object followed by CopyFrom
into a fresh struct succeeds without diagnostics and returns the value in normal form. No IR-side hypothesis remains that is
not a Boolean on `m`. -/
theorem C04_built_root_typed (ov : List (String × String)) (cfg : Config) (req : Request) (desc : MsgD) (m : Msg)
    (hb : buildRoot cfg req desc = .ok (some m))
    (hc : ConfigTypesAgree (viewOf cfg)) (hcc : ConfigCastsAgree (viewOf cfg))
    (hg : gapFreeBs m.fields = true) (hn : namesOKsB m.fields = true) (hrt : rtBs m.fields = true)
    (obj : GoVal) (hv : ValOKs m.fields obj) (hrv : RTVals m.fields obj) :
    ∃ r b, copyTo m obj (.obj false false none (some (attrTypesOf m))) = .ok r ∧ r.diags = [] ∧
      copyFrom ov m r.tf (.struct []) = .ok b ∧ b.diags = [] ∧ c04Check m obj b.obj = true :=
  C04_built_root ov cfg req desc m hb hc hg hn obj hv
    (rt3oks_of_split m.fields obj (built_rtNodes _ _ req desc true "" m (buildRoot_inv hb) hc hcc hg hn hrt) hrv)

/-- … in the shape of `Props.C04.C04_full`, restricted to built roots and typed values -/
theorem C04_full_built_root_typed (ov : List (String × String)) (cfg : Config) (req : Request) (desc : MsgD) (m : Msg)
    (hb : buildRoot cfg req desc = .ok (some m))
    (hc : ConfigTypesAgree (viewOf cfg)) (hcc : ConfigCastsAgree (viewOf cfg))
    (hg : gapFreeBs m.fields = true) (hn : namesOKsB m.fields = true) (hrt : rtBs m.fields = true)
    (obj : GoVal) (hv : ValOKs m.fields obj) (hrv : RTVals m.fields obj) (r : ToResult) (b : FromResult)
    (h1 : copyTo m obj (.obj false false none (some (attrTypesOf m))) = .ok r)
    (h2 : copyFrom ov m r.tf (.struct []) = .ok b) :
    r.diags = [] ∧ b.diags = [] ∧ c04Check m obj b.obj = true := by
  obtain ⟨r0, b0, hr0, hd0, hb0, hbd0, hcheck⟩ := C04_built_root_typed ov cfg req desc m hb hc hcc hg hn hrt obj hv hrv
  rw [hr0] at h1
  injection h1 with h1
  subst h1
  rw [hb0] at h2
  injection h2 with h2
  subst h2
  exact ⟨hd0, hbd0, hcheck⟩

/-- … for every message `buildRoots` emits -/
theorem C04_built_roots_typed (ov : List (String × String)) (cfg : Config) (req : Request) (m : Msg)
    (hm : m ∈ (buildRoots cfg req).1)
    (hc : ConfigTypesAgree (viewOf cfg)) (hcc : ConfigCastsAgree (viewOf cfg))
    (hg : gapFreeBs m.fields = true) (hn : namesOKsB m.fields = true) (hrt : rtBs m.fields = true)
    (obj : GoVal) (hv : ValOKs m.fields obj) (hrv : RTVals m.fields obj) :
    ∃ r b, copyTo m obj (.obj false false none (some (attrTypesOf m))) = .ok r ∧ r.diags = [] ∧
      copyFrom ov m r.tf (.struct []) = .ok b ∧ b.diags = [] ∧ c04Check m obj b.obj = true := by
  obtain ⟨d, _, hb⟩ := PGT.Props.C18.C18_failed_root_not_emitted cfg req m hm
  exact C04_built_root_typed ov cfg req d m hb hc hcc hg hn hrt obj hv hrv

/-- MAIN with the residual Boolean split into its three parts -/
theorem C04_built_root_typed' (ov : List (String × String)) (cfg : Config) (req : Request) (desc : MsgD) (m : Msg)
    (hb : buildRoot cfg req desc = .ok (some m))
    (hc : ConfigTypesAgree (viewOf cfg)) (hcc : cfgCastsB cfg = true)
    (hg : gapFreeBs m.fields = true) (hn : namesOKsB m.fields = true)
    (hbr : branchOKsB m.fields = true) (hptr : ptrOKsB m.fields = true) (hsep : sepOKsB m.fields = true)
    (obj : GoVal) (hv : ValOKs m.fields obj) (hrv : RTVals m.fields obj) :
    ∃ r b, copyTo m obj (.obj false false none (some (attrTypesOf m))) = .ok r ∧ r.diags = [] ∧
      copyFrom ov m r.tf (.struct []) = .ok b ∧ b.diags = [] ∧ c04Check m obj b.obj = true :=
  C04_built_root_typed ov cfg req desc m hb hc (configCastsAgree_of_b cfg hcc) hg hn
    ((rtBs_iff _).mpr ⟨hbr, hptr, hsep⟩) obj hv hrv

/-- a conversion only succeeds on a value of the source representation -/
theorem hasRep_of_conv (src dst : GoRep) (x c : Sc) (h : conv src dst x = some c) : C19.HasRep src x := by
  cases src <;> cases dst <;> cases x <;> simp only [conv] at h <;> first | trivial | cases h

/-- on non-pointer scalars the CopyTo-side typing implies the read-back-side typing -/
theorem primVal_of_primTyped (info : FieldInfo) (x : GoVal) (hn : info.isNullable = false) (h : PrimTyped info x) :
    PrimVal info x := by
  unfold PrimTyped at h
  unfold PrimVal
  simp only [hn, Bool.false_eq_true, if_false] at h ⊢
  obtain ⟨s, c, hx, hc, _⟩ := h
  refine ⟨s, hx, ?_⟩
  unfold FieldInfo.castTo at hc
  split at hc
  · exact hasRep_of_conv _ _ _ _ hc
  · cases hc

-- ======================================================================================================
-- 6. deciders for the two typing judgements on a concrete struct value (sound; used by `Sanity`)
-- ======================================================================================================

def msgTypedB (n : Bool) (P : GoVal → Bool) (x : GoVal) : Bool :=
  if n then
    match x with
    | .ptr none => true
    | .ptr (some (.struct fs)) => P (.struct fs)
    | _ => false
  else
    match x with
    | .struct fs => P (.struct fs)
    | _ => false

theorem msgTyped_of_b (n : Bool) (P : GoVal → Bool) (Q : GoVal → Prop) (x : GoVal) (h : msgTypedB n P x = true)
    (hPQ : ∀ fs, P (.struct fs) = true → Q (.struct fs)) : MsgTyped n Q x := by
  unfold msgTypedB at h
  unfold MsgTyped
  cases n
  · simp only [Bool.false_eq_true, if_false] at h ⊢
    split at h
    · rename_i fs; exact ⟨fs, rfl, hPQ fs h⟩
    · cases h
  · simp only [if_true] at h ⊢
    split at h
    · exact Or.inl rfl
    · rename_i fs; exact Or.inr ⟨fs, rfl, hPQ fs h⟩
    · cases h

def nodupB : List String → Bool
  | [] => true
  | x :: xs => !xs.contains x && nodupB xs

theorem nodup_of_b : ∀ l : List String, nodupB l = true → l.Nodup
  | [], _ => List.nodup_nil
  | x :: xs, h => by
    unfold nodupB at h
    simp only [Bool.and_eq_true, Bool.not_eq_true', List.contains_eq_mem, decide_eq_false_iff_not] at h
    exact List.nodup_cons.mpr ⟨h.1, nodup_of_b xs h.2⟩

def reachB (info : FieldInfo) (obj : GoVal) : Bool :=
  !info.parentIsOptionalEmbed ||
  (!parentIsNil info obj &&
    match obj.field? info.parentIsOptionalEmbedFieldName with
    | some (.ptr (some _)) => true
    | _ => false)

theorem reachableV_of_b (info : FieldInfo) (obj : GoVal) (h : reachB info obj = true) : ReachableV info obj := by
  intro hp
  unfold reachB at h
  simp only [hp, Bool.not_true, Bool.false_or, Bool.and_eq_true, Bool.not_eq_true'] at h
  refine ⟨h.1, ?_⟩
  have h2 := h.2
  split at h2
  · rename_i s hs; exact ⟨s, hs⟩
  · cases h2

def primTypedB (info : FieldInfo) (x : GoVal) : Bool :=
  if info.isNullable then
    info.tf.zeroValue == "" &&
      (match x with
       | .ptr none => true
       | .ptr (some (.sc _)) => true
       | _ => false)
  else
    match x with
    | .sc s =>
      (match info.castTo s with
       | some c =>
         info.tf.zeroValue == "" ||
           (match eqLiteral info.tf.zeroValue c with
            | some b => b == scIsZero s
            | none => false)
       | none => false)
    | _ => false

theorem primTyped_of_b (info : FieldInfo) (x : GoVal) (h : primTypedB info x = true) : PrimTyped info x := by
  unfold primTypedB at h
  unfold PrimTyped
  cases hn : info.isNullable
  · simp only [hn, Bool.false_eq_true, if_false] at h ⊢
    split at h
    · rename_i s
      split at h
      · rename_i c hc
        refine ⟨s, c, rfl, hc, fun hz => ?_⟩
        have hz' : (info.tf.zeroValue == "") = false := by simpa using hz
        simp only [hz', Bool.false_or] at h
        split at h
        · rename_i b hb
          exact ⟨b, hb, by simpa using h⟩
        · cases h
      · cases h
    · cases h
  · simp only [hn, if_true, Bool.and_eq_true, beq_iff_eq] at h ⊢
    refine ⟨h.1, ?_⟩
    have h2 := h.2
    split at h2
    · exact Or.inl rfl
    · rename_i s; exact Or.inr ⟨s, rfl⟩
    · cases h2

mutual
/-- decider for `ValOK` (sound) -/
def valOKB : Field → GoVal → Bool
  | ⟨info, _, msg, sub⟩, obj =>
    match info.kind with
    | .primitive =>
      info.isPlaceholder || (info.parentIsOptionalEmbed && parentIsNil info obj) ||
        (reachB info obj && primTypedB info (getVal info obj))
    | .custom => reachB info obj && (hookTo info.isRepeated (getVal info obj)).isSome
    | .object =>
      reachB info obj &&
      (!isEmptyMsg msg ||
        (match getVal info obj with
         | .ptr (some (.struct fs)) => fs.isEmpty
         | .struct fs => fs.isEmpty
         | _ => true)) &&
      msgTypedB info.isNullable (fun s => valOKsB sub s) (getVal info obj)
    | .primitiveList =>
      reachB info obj &&
      (match getVal info obj with
       | .slice none => true
       | .slice (some es) => es.all (primTypedB info)
       | _ => false)
    | .objectList =>
      reachB info obj &&
      (match getVal info obj with
       | .slice none => true
       | .slice (some es) => es.all (msgTypedB info.isNullable (fun s => valOKsB sub s))
       | _ => false)
    | .primitiveMap =>
      reachB info obj &&
      (match getVal info obj with
       | .map none => true
       | .map (some es) => nodupB (es.map (·.1)) && es.all (fun e => primTypedB info e.2)
       | _ => false)
    | .objectMap =>
      reachB info obj &&
      (match getVal info obj with
       | .map none => true
       | .map (some es) => nodupB (es.map (·.1)) && es.all (fun e => msgTypedB info.isNullable (fun s => valOKsB sub s) e.2)
       | _ => false)
def valOKsB : List Field → GoVal → Bool
  | [], _ => true
  | f :: rest, obj => valOKB f obj && valOKsB rest obj
end

mutual
theorem valOK_of_b : ∀ (f : Field) (obj : GoVal), valOKB f obj = true → ValOK f obj
  | ⟨info, mv, msg, sub⟩, obj, h => by
    unfold valOKB at h
    unfold ValOK
    cases hk : info.kind <;> simp only [hk] at h ⊢
    · -- primitive
      simp only [Bool.or_eq_true, Bool.and_eq_true] at h
      rcases h with (h | h) | h
      · exact Or.inl h
      · exact Or.inr (Or.inl h)
      · exact Or.inr (Or.inr ⟨reachableV_of_b _ _ h.1, primTyped_of_b _ _ h.2⟩)
    · -- primitiveList
      simp only [Bool.and_eq_true] at h
      refine ⟨reachableV_of_b _ _ h.1, ?_⟩
      have h2 := h.2
      generalize getVal info obj = x at h2 ⊢
      split at h2
      · exact Or.inl rfl
      · rename_i es
        exact Or.inr ⟨es, rfl, fun e he => primTyped_of_b _ _ (List.all_eq_true.mp h2 e he)⟩
      · cases h2
    · -- object
      simp only [Bool.and_eq_true, Bool.or_eq_true, Bool.not_eq_true'] at h
      obtain ⟨⟨h1, h2⟩, h3⟩ := h
      refine ⟨reachableV_of_b _ _ h1, ?_, msgTyped_of_b _ _ _ _ h3 (fun fs hfs => valOKs_of_b sub _ hfs)⟩
      intro hem fs hfs
      rcases h2 with h2 | h2
      · rw [hem] at h2; cases h2
      · rcases hfs with hfs | hfs <;> (rw [hfs] at h2; simpa using h2)
    · -- objectList
      simp only [Bool.and_eq_true] at h
      refine ⟨reachableV_of_b _ _ h.1, ?_⟩
      have h2 := h.2
      generalize getVal info obj = x at h2 ⊢
      split at h2
      · exact Or.inl rfl
      · rename_i es
        exact Or.inr ⟨es, rfl, fun e he => msgTyped_of_b _ _ _ _ (List.all_eq_true.mp h2 e he)
          (fun fs hfs => valOKs_of_b sub _ hfs)⟩
      · cases h2
    · -- primitiveMap
      simp only [Bool.and_eq_true] at h
      refine ⟨reachableV_of_b _ _ h.1, ?_⟩
      have h2 := h.2
      generalize getVal info obj = x at h2 ⊢
      split at h2
      · exact Or.inl rfl
      · rename_i es
        simp only [Bool.and_eq_true] at h2
        exact Or.inr ⟨es, rfl, nodup_of_b _ h2.1, fun e he => primTyped_of_b _ _ (List.all_eq_true.mp h2.2 e he)⟩
      · cases h2
    · -- objectMap
      simp only [Bool.and_eq_true] at h
      refine ⟨reachableV_of_b _ _ h.1, ?_⟩
      have h2 := h.2
      generalize getVal info obj = x at h2 ⊢
      split at h2
      · exact Or.inl rfl
      · rename_i es
        simp only [Bool.and_eq_true] at h2
        exact Or.inr ⟨es, rfl, nodup_of_b _ h2.1, fun e he => msgTyped_of_b _ _ _ _ (List.all_eq_true.mp h2.2 e he)
          (fun fs hfs => valOKs_of_b sub _ hfs)⟩
      · cases h2
    · -- custom
      simp only [Bool.and_eq_true] at h
      refine ⟨reachableV_of_b _ _ h.1, ?_⟩
      cases hh : hookTo info.isRepeated (getVal info obj) with
      | none => rw [hh] at h; simp at h
      | some v => exact ⟨v, rfl⟩
theorem valOKs_of_b : ∀ (fs : List Field) (obj : GoVal), valOKsB fs obj = true → ValOKs fs obj
  | [], _, _ => by unfold ValOKs; trivial
  | f :: rest, obj, h => by
    unfold valOKsB at h
    simp only [Bool.and_eq_true] at h
    unfold ValOKs
    exact ⟨valOK_of_b f obj h.1, valOKs_of_b rest obj h.2⟩
end

def hasRepB : GoRep → Sc → Bool
  | .b, .b _ => true
  | .str, .str _ => true
  | .bytes, .bytes _ => true
  | .i32, .w32 _ => true
  | .u32, .w32 _ => true
  | .i64, .w64 _ => true
  | .u64, .w64 _ => true
  | .f32, .f32 _ => true
  | .f64, .f64 _ => true
  | .time, .time _ => true
  | .dur, .w64 _ => true
  | _, _ => false

theorem hasRep_of_b (r : GoRep) (s : Sc) (h : hasRepB r s = true) : C19.HasRep r s := by
  cases r <;> cases s <;> simp [hasRepB] at h <;> trivial

def primValB (info : FieldInfo) (x : GoVal) : Bool :=
  if info.isNullable then
    match x with
    | .ptr none => true
    | .ptr (some (.sc s)) => hasRepB info.rep s
    | _ => false
  else
    match x with
    | .sc s => hasRepB info.rep s
    | _ => false

theorem primVal_of_b (info : FieldInfo) (x : GoVal) (h : primValB info x = true) : PrimVal info x := by
  unfold primValB at h
  unfold PrimVal
  cases hn : info.isNullable
  · simp only [hn, Bool.false_eq_true, if_false] at h ⊢
    split at h
    · rename_i s; exact ⟨s, rfl, hasRep_of_b _ _ h⟩
    · cases h
  · simp only [hn, if_true] at h ⊢
    split at h
    · exact Or.inl rfl
    · rename_i s; exact Or.inr ⟨s, rfl, hasRep_of_b _ _ h⟩
    · cases h

def holderB (info : FieldInfo) (obj : GoVal) : Bool :=
  match obj.field? info.oneOfName with
  | some (.iface (some (w, fn, _))) => !(w == lastSegment info.oneOfType) || fn == info.name
  | _ => true

theorem holderWF_of_b (info : FieldInfo) (obj : GoVal) (h : holderB info obj = true) : HolderWF info obj := by
  intro w fn p hf hw
  unfold holderB at h
  rw [hf] at h
  simp only [hw, beq_self_eq_true, Bool.not_true, Bool.false_or, beq_iff_eq] at h
  exact h

def customTypedB (rep : Bool) (x : GoVal) : Bool :=
  !rep || (sliceElems x).all (fun e => match e with | .sc (.str _) => true | _ => false)

theorem customTyped_of_b (rep : Bool) (x : GoVal) (h : customTypedB rep x = true) : CustomTyped rep x := by
  unfold customTypedB at h
  unfold CustomTyped
  cases rep
  · simp
  · simp only [Bool.not_true, Bool.false_or, List.all_eq_true, if_true] at h ⊢
    intro e he
    have := h e he
    split at this
    · rename_i s; exact ⟨s, rfl⟩
    · cases this

mutual
/-- decider for `RTVal` (sound) -/
def rtValB : Field → GoVal → Bool
  | ⟨info, _, _, sub⟩, obj =>
    if info.oneOfName == "" then
      match info.kind with
      | .primitive => info.isPlaceholder || primValB info (getVal info obj)
      | .object => msgTypedB info.isNullable (fun s => rtValsB sub s) (getVal info obj)
      | .primitiveList => (sliceElems (getVal info obj)).all (primValB info)
      | .objectList => (sliceElems (getVal info obj)).all (msgTypedB info.isNullable (fun s => rtValsB sub s))
      | .primitiveMap =>
        nodupB ((mapElems (getVal info obj)).map (·.1)) && (mapElems (getVal info obj)).all (fun e => primValB info e.2)
      | .objectMap =>
        nodupB ((mapElems (getVal info obj)).map (·.1)) &&
          (mapElems (getVal info obj)).all (fun e => msgTypedB info.isNullable (fun s => rtValsB sub s) e.2)
      | .custom => customTypedB info.isRepeated (getVal info obj)
    else
      holderB info obj &&
      match info.kind with
      | .primitive => primValB info (getVal info obj)
      | .object => msgTypedB true (fun s => rtValsB sub s) (getVal info obj)
      | _ => true
def rtValsB : List Field → GoVal → Bool
  | [], _ => true
  | f :: rest, obj => rtValB f obj && rtValsB rest obj
end

mutual
theorem rtVal_of_b : ∀ (f : Field) (obj : GoVal), rtValB f obj = true → RTVal f obj
  | ⟨info, mv, msg, sub⟩, obj, h => by
    unfold rtValB at h
    unfold RTVal
    by_cases ho : info.oneOfName = ""
    · have hoB : (info.oneOfName == "") = true := by simpa using ho
      simp only [hoB, if_true] at h
      refine ⟨fun _ => ?_, fun hne => absurd ho hne⟩
      cases hk : info.kind <;> simp only [hk] at h ⊢
      · simp only [Bool.or_eq_true] at h
        rcases h with h | h
        · exact Or.inl h
        · exact Or.inr (primVal_of_b _ _ h)
      · exact fun e he => primVal_of_b _ _ (List.all_eq_true.mp h e he)
      · exact msgTyped_of_b _ _ _ _ h (fun fs hfs => rtVals_of_b sub _ hfs)
      · exact fun e he => msgTyped_of_b _ _ _ _ (List.all_eq_true.mp h e he) (fun fs hfs => rtVals_of_b sub _ hfs)
      · simp only [Bool.and_eq_true] at h
        exact ⟨nodup_of_b _ h.1, fun e he => primVal_of_b _ _ (List.all_eq_true.mp h.2 e he)⟩
      · simp only [Bool.and_eq_true] at h
        exact ⟨nodup_of_b _ h.1, fun e he => msgTyped_of_b _ _ _ _ (List.all_eq_true.mp h.2 e he)
          (fun fs hfs => rtVals_of_b sub _ hfs)⟩
      · exact customTyped_of_b _ _ h
    · have hoB : (info.oneOfName == "") = false := by simpa using ho
      simp only [hoB, Bool.false_eq_true, if_false, Bool.and_eq_true] at h
      refine ⟨fun h0 => absurd h0 ho, fun _ => ⟨holderWF_of_b _ _ h.1, ?_⟩⟩
      have h2 := h.2
      cases hk : info.kind <;> simp only [hk] at h2 ⊢
      · exact primVal_of_b _ _ h2
      · exact msgTyped_of_b _ _ _ _ h2 (fun fs hfs => rtVals_of_b sub _ hfs)
theorem rtVals_of_b : ∀ (fs : List Field) (obj : GoVal), rtValsB fs obj = true → RTVals fs obj
  | [], _, _ => by unfold RTVals; trivial
  | f :: rest, obj, h => by
    unfold rtValsB at h
    simp only [Bool.and_eq_true] at h
    unfold RTVals
    exact ⟨rtVal_of_b f obj h.1, rtVals_of_b rest obj h.2⟩
end

-- ======================================================================================================
-- 7. sanity: the Booleans on BuiltWF's `Sanity` root (15 attributes), MAIN on a concrete typed value
-- ======================================================================================================

namespace Sanity
open PGT.Proofs.BuiltWF.Sanity

/-- a value of the nested message `L` -/
def lv (x : Nat) (a : List UInt8) : GoVal := .struct [("X", .sc (.w32 (BitVec.ofNat 32 x))), ("A", .sc (.str a))]

/-- a value of the root `R`: every field set; −1 in the repeated int32; an empty string as a map value; the embedded-by-value
message `V` flattened into the root; the embedded-by-pointer message `P` allocated; the group `Choice` holds the message branch -/
def val : GoVal := .struct [
  ("S", .sc (.str [104, 105])),
  ("Ns", .slice (some [.sc (.w32 7), .sc (.w32 0xffffffff)])),
  ("En", .sc (.w32 2)),
  ("By", .sc (.bytes (some [1, 2]))),
  ("T", .ptr (some (.sc (.time "t1")))),
  ("N", .ptr (some (lv 5 [97]))),
  ("E", .ptr (some (.struct []))),
  ("Ls", .slice (some [.ptr (some (lv 1 []))])),
  ("Lm", .map (some [("k", .ptr (some (lv 3 [98])))])),
  ("Sm", .map (some [("a", .sc (.str [120])), ("b", .sc (.str []))])),
  ("Vs", .sc (.str [118])), ("Vt", .ptr (some (.sc (.time "t2")))),
  ("P", .ptr (some (.struct [("Pq", .sc (.b true))]))),
  ("Choice", .iface (some ("R_O2", "O2", .ptr (some (lv 9 [122])))))]

theorem cfgCasts : cfgCastsB cfg = true := by decide

/-- the residual Boolean `rtBs` and the two value deciders on the built root -/
theorem checks : build.toOption.map (fun m => (rtBs m.fields, valOKsB m.fields val, rtValsB m.fields val)) =
    some (true, true, true) := by
  decide +kernel

/-- **MAIN on the sanity root and the concrete value `val`** -/
theorem C04_sanity (ov : List (String × String)) (m : Msg) (hb : buildRoot cfg req dR = .ok (some m)) :
    ∃ r b, copyTo m val (.obj false false none (some (attrTypesOf m))) = .ok r ∧ r.diags = [] ∧
      copyFrom ov m r.tf (.struct []) = .ok b ∧ b.diags = [] ∧ c04Check m val b.obj = true := by
  have h := buildRoot_inv hb
  have hc := checks
  rw [show build = buildMessage (defaultFuel req) (viewOf cfg) req dR true "" from rfl, h] at hc
  simp only [Except.toOption, Option.map_some, Option.some.injEq, Prod.mk.injEq] at hc
  obtain ⟨_, ⟨hg, hn⟩, _⟩ := agree m hb
  exact C04_built_root_typed ov cfg req dR m hb cta (configCastsAgree_of_b cfg cfgCasts) hg hn hc.1
    val (valOKs_of_b _ _ hc.2.1) (rtVals_of_b _ _ hc.2.2)

/-- the three parts of the residual Boolean on the sanity root -/
theorem three (m : Msg) (hb : buildRoot cfg req dR = .ok (some m)) :
    branchOKsB m.fields = true ∧ ptrOKsB m.fields = true ∧ sepOKsB m.fields = true := by
  have h := buildRoot_inv hb
  have hc := checks
  rw [show build = buildMessage (defaultFuel req) (viewOf cfg) req dR true "" from rfl, h] at hc
  simp only [Except.toOption, Option.map_some, Option.some.injEq, Prod.mk.injEq] at hc
  exact (rtBs_iff _).mp hc.1

end Sanity
-- ======================================================================================================
-- 8. the residual Boolean is not implied by the build: built IRs (no gap, distinct attribute names) violating each clause
-- ======================================================================================================

namespace Witness

/-- what the witnesses show of a node of a built root -/
structure NodeView where
  attr : String
  goName : String
  kind : Kind
  isNullable : Bool
  zeroValue : String
  group : String
  branch : Bool
  ptr : Bool
deriving DecidableEq, Repr

/-- the nodes of the built root, then `gapFreeBs`, `namesOKsB`, `rtBs` -/
abbrev view (cfg : Config) (r : Request) (d : MsgD) : Option (List NodeView × Bool × Bool × Bool) :=
  (buildMessage (defaultFuel r) (viewOf cfg) r d true "").toOption.map fun m =>
    (m.fields.map (fun f => ⟨f.info.nameSnake, f.info.name, f.info.kind, f.info.isNullable, f.info.tf.zeroValue,
        f.info.oneOfName, branchB f.info, ptrB f.info⟩),
     gapFreeBs m.fields, namesOKsB m.fields, rtBs m.fields)

def cfgT : Config := { types := ["B"], timeType := some BuiltWF.Sanity.tsT }
def dL : MsgD := { name := "L", fields := [{ name := "x", type := "int32" }] }
def reqOf (ds : List MsgD) : Request := { file := { name := "w.proto", package := "w", messages := ds } }

/-- (a) a `Timestamp` oneof member: the branch is pointer-backed (`isNullable`) and has no zero literal -/
def dB1 : MsgD := { name := "B", oneofs := ["choice"], fields := [{ name := "t", type := "timestamp", oneof := some 0 }] }
theorem b1_timestampBranch : view cfgT (reqOf [dB1]) dB1 =
    some ([⟨"t", "T", .primitive, true, "", "Choice", false, true⟩], true, true, false) := by decide +kernel

/-- (b) a `stdtime`, non-nullable `Timestamp` oneof member: not pointer-backed, but no zero literal -/
def dB2 : MsgD := { name := "B", oneofs := ["choice"], fields := [
  { name := "t", type := "timestamp", stdTime := true, nullable := "false", oneof := some 0 }] }
theorem b2_stdtimeBranch : view cfgT (reqOf [dB2]) dB2 =
    some ([⟨"t", "T", .primitive, false, "", "Choice", false, true⟩], true, true, false) := by decide +kernel

/-- (c) a message oneof member with `nullable = false`: the branch is not a pointer -/
def dB3 : MsgD := { name := "B", oneofs := ["choice"], fields := [
  { name := "m", type := "message", typeName := "L", nullable := "false", oneof := some 0 }] }
theorem b3_valueMessageBranch : view {} (reqOf [dB3, dL]) dB3 =
    some ([⟨"m", "M", .object, false, "", "Choice", false, true⟩], true, true, false) := by decide +kernel

/-- (d) a cast type written with a star: a pointer-backed int32 whose value kind is Int64 (`ptrB` fails) -/
def dB4 : MsgD := { name := "B", fields := [{ name := "c", type := "int32", castType := "*X" }] }
theorem b4_pointerCast : view {} (reqOf [dB4]) dB4 =
    some ([⟨"c", "C", .primitive, true, "0", "", true, false⟩], true, true, false) := by decide +kernel

/-- (e) a field named like the holder of a oneof group: two blocks assign the Go field `Choice` (`sepB` fails) -/
def dB5 : MsgD := { name := "B", oneofs := ["choice"], fields := [
  { name := "a", type := "string", oneof := some 0 }, { name := "choice", type := "string" }] }
theorem b5_fieldNamedLikeHolder : view {} (reqOf [dB5]) dB5 =
    some ([⟨"a", "A", .primitive, false, "\"\"", "Choice", true, true⟩,
           ⟨"choice", "Choice", .primitive, false, "\"\"", "", true, true⟩], true, true, false) := by decide +kernel

/-- (f) two proto names with one Go name (`foo_bar`, `fooBar`), distinct attribute names (json tag): `sepB` fails -/
def dB6 : MsgD := { name := "B", fields := [
  { name := "foo_bar", type := "string" }, { name := "fooBar", type := "string", jsonTag := some "other" }] }
theorem b6_sameGoName : view {} (reqOf [dB6]) dB6 =
    some ([⟨"foo_bar", "FooBar", .primitive, false, "\"\"", "", true, true⟩,
           ⟨"other", "FooBar", .primitive, false, "\"\"", "", true, true⟩], true, true, false) := by decide +kernel

end Witness
end PGT.Proofs.BuiltRT

section
open PGT.Proofs.BuiltRT
#print axioms rt3oks_of_split
#print axioms rtVals_of_rt3oks
#print axioms rtLevel_of_rt3oks
#print axioms rt3oks_iff_full_false
#print axioms narrow_widen_nan
#print axioms pair_inv
#print axioms primRT_of_pair
#print axioms getTerraformType_casts
#print axioms cast_all
#print axioms built_primRT
#print axioms sepB_iff
#print axioms rtBs_iff
#print axioms rtNodes_of_built
#print axioms built_rtNodes
#print axioms C04_built_root_typed
#print axioms C04_built_root_typed'
#print axioms C04_full_built_root_typed
#print axioms C04_built_roots_typed
#print axioms primVal_of_primTyped
#print axioms valOKs_of_b
#print axioms rtVals_of_b
#print axioms Sanity.checks
#print axioms Sanity.C04_sanity
#print axioms Sanity.three
#print axioms Witness.b1_timestampBranch
#print axioms Witness.b2_stdtimeBranch
#print axioms Witness.b3_valueMessageBranch
#print axioms Witness.b4_pointerCast
#print axioms Witness.b5_fieldNamedLikeHolder
#print axioms Witness.b6_sameGoName
end
