import PGT.Model.Build
import PGT.Props.C18
/-
P4 / C18 - "a selected type is generated whole or not at all": build errors propagate from any depth.

  1. `field_error_fails_message`   an error of any declared field's `buildFieldCore` call aborts `buildMessage`
  2. `nested_error_fails_field`, `map_value_error_fails_field`
                                   an error of the nested message / of the map value aborts the field
  3. `FailsAt`, `MsgFailsAt`, `failsAt_fails_field`, `failsAt_fails_message` (+ `failsAt_fails_root`,
     `failsAt_root_reported`, `emitted_root_has_no_chain`)
                                   failure chains of any length make the root fail, for EVERY fuel
  4. `built_message_fields_ok`, `message_ok_iff_fields_ok`, `excluded_field_ok`, `excluded_not_failsAt`,
     `exclusion_restores_message`  the converse shape; exclusion is tested first
  5. `fuel_mono`, `buildMessage_ok_unique`, `error_has_chain`, `build_trichotomy`
                                   successful builds do not depend on the fuel; every error other than the
                                   fuel bound is witnessed by a chain (completeness of `FailsAt`)
  6. `Witness.chain_A`             a concrete chain three messages deep

Fuel is explicit everywhere; nothing assumes the message graph to be acyclic.
-/

namespace PGT.Proofs.BuildErrors
open PGT PGT.Props.C18

/-- the result is an error (whatever the error value) -/
def IsErr {ε α} (x : Except ε α) : Prop := ∃ e, x = .error e

/-- the message context `buildMessage` builds for `desc` -/
def ctxOf (desc : MsgD) (isRoot : Bool) (path : String) : MsgCtx :=
  { desc := desc, path := if isRoot then desc.name else path }

/-- the call `buildMessage` makes for a declared field -/
def fieldCall (fuel : Nat) (cfg : CfgView) (req : Request) (ctx : MsgCtx) (f : FieldD) : Except BuildError (List Field) :=
  buildFieldCore fuel cfg req ctx f (keysOf ctx f) (goTypeOf cfg ctx f) (f.card == .map) (f.card == .repeated) f.comment.isSome

/-- the value-field Go type `setMapValues` computes -/
def mapValueGoType (cfg : CfgView) (f : FieldD) : String :=
  prependPackageNameIfMissing cfg.importOverride
    (afterLastBracket (prependPackageNameIfMissing cfg.importOverride (gogoMapGoType f) cfg.defaultPackageName))
    cfg.defaultPackageName

theorem buildMessage_err_of_collect (fuel : Nat) (cfg : CfgView) (req : Request) (desc : MsgD) (isRoot : Bool) (path : String)
    (hne : desc.fields.isEmpty = false) (e : BuildError)
    (h : collectFields (desc.fields.map fun f => fieldCall fuel cfg req (ctxOf desc isRoot path) f) = .error e) :
    buildMessage (fuel + 1) cfg req desc isRoot path = .error e := by
  unfold buildMessage
  simp only [fieldCall, ctxOf] at h
  simp only [hne, h]
  rfl

theorem core_tf_error (fuel : Nat) (cfg : CfgView) (req : Request) (ctx : MsgCtx) (f : FieldD) (keys : Keys)
    (goType : String) (isMap isRep hasComment : Bool) (e : BuildError)
    (hex : cfg.excluded keys = false)
    (htf : getTerraformType cfg f isMap isRep goType keys.path = .error e) :
    buildFieldCore (fuel + 1) cfg req ctx f keys goType isMap isRep hasComment = .error e := by
  unfold buildFieldCore
  simp only [hex, htf]
  rfl

theorem core_unknown_message (fuel : Nat) (cfg : CfgView) (req : Request) (ctx : MsgCtx) (f : FieldD) (keys : Keys)
    (goType : String) (isRep hasComment : Bool) (tf : TfType)
    (hex : cfg.excluded keys = false)
    (htf : getTerraformType cfg f false isRep goType keys.path = .ok tf)
    (hm : tf.isMessage = true)
    (hfind : req.findMessage f.typeName = none) :
    buildFieldCore (fuel + 1) cfg req ctx f keys goType false isRep hasComment = .error (.unknownMessage f.typeName) := by
  unfold buildFieldCore
  simp only [hex, htf, hm, hfind]
  rfl

theorem core_nested_error (fuel : Nat) (cfg : CfgView) (req : Request) (ctx : MsgCtx) (f : FieldD) (keys : Keys)
    (goType : String) (isRep hasComment : Bool) (tf : TfType) (d : MsgD) (e : BuildError)
    (hex : cfg.excluded keys = false)
    (htf : getTerraformType cfg f false isRep goType keys.path = .ok tf)
    (hm : tf.isMessage = true)
    (hfind : req.findMessage f.typeName = some d)
    (hb : buildMessage fuel cfg req d false keys.path = .error e) :
    buildFieldCore (fuel + 1) cfg req ctx f keys goType false isRep hasComment = .error e := by
  unfold buildFieldCore
  simp only [hex, htf, hm, hfind, hb]
  rfl

theorem core_map_key (fuel : Nat) (cfg : CfgView) (req : Request) (ctx : MsgCtx) (f : FieldD) (keys : Keys)
    (goType : String) (isRep hasComment : Bool) (tf : TfType)
    (hex : cfg.excluded keys = false)
    (htf : getTerraformType cfg f true isRep goType keys.path = .ok tf)
    (hk : scalarGoType f.mapKey ≠ "string") :
    buildFieldCore (fuel + 1) cfg req ctx f keys goType true isRep hasComment = .error (.nonStringMapKey keys.path) := by
  unfold buildFieldCore
  simp only [hex, htf]
  simp [hk]

theorem core_map_value_error (fuel : Nat) (cfg : CfgView) (req : Request) (ctx : MsgCtx) (f : FieldD) (keys : Keys)
    (goType : String) (isRep hasComment : Bool) (tf : TfType) (e : BuildError)
    (hex : cfg.excluded keys = false)
    (htf : getTerraformType cfg f true isRep goType keys.path = .ok tf)
    (hk : scalarGoType f.mapKey = "string")
    (hv : buildFieldCore fuel cfg req ctx f.mapValueField keys (mapValueGoType cfg f) false false false = .error e) :
    buildFieldCore (fuel + 1) cfg req ctx f keys goType true isRep hasComment = .error e := by
  unfold buildFieldCore
  simp only [mapValueGoType] at hv
  simp only [hex, htf]
  simp [hk, hv]

theorem core_map_value_empty (fuel : Nat) (cfg : CfgView) (req : Request) (ctx : MsgCtx) (f : FieldD) (keys : Keys)
    (goType : String) (isRep hasComment : Bool) (tf : TfType)
    (hex : cfg.excluded keys = false)
    (htf : getTerraformType cfg f true isRep goType keys.path = .ok tf)
    (hk : scalarGoType f.mapKey = "string")
    (hv : buildFieldCore fuel cfg req ctx f.mapValueField keys (mapValueGoType cfg f) false false false = .ok []) :
    buildFieldCore (fuel + 1) cfg req ctx f keys goType true isRep hasComment = .error (.unknownFieldType keys.path) := by
  unfold buildFieldCore
  simp only [mapValueGoType] at hv
  simp only [hex, htf]
  simp [hk, hv]

/-! ## 1. an error in any declared field aborts the message -/

theorem field_error_fails_message (fuel : Nat) (cfg : CfgView) (req : Request) (desc : MsgD) (isRoot : Bool) (path : String)
    (f : FieldD) (hf : f ∈ desc.fields)
    (h : IsErr (fieldCall fuel cfg req (ctxOf desc isRoot path) f)) :
    IsErr (buildMessage (fuel + 1) cfg req desc isRoot path) := by
  obtain ⟨e, he⟩ := h
  have hne : desc.fields.isEmpty = false := by
    cases hfs : desc.fields with
    | nil => rw [hfs] at hf; cases hf
    | cons a l => rfl
  have hmem : Except.error e ∈ desc.fields.map fun f => fieldCall fuel cfg req (ctxOf desc isRoot path) f :=
    List.mem_map.mpr ⟨f, hf, he⟩
  obtain ⟨e', he'⟩ := C18_collect_error _ e hmem
  exact ⟨e', buildMessage_err_of_collect fuel cfg req desc isRoot path hne e' he'⟩

/-- the same, with the context and the call written out as in `buildMessage` -/
theorem field_error_fails_message' (fuel : Nat) (cfg : CfgView) (req : Request) (desc : MsgD) (isRoot : Bool) (path : String)
    (f : FieldD) (hf : f ∈ desc.fields) (e : BuildError)
    (h : let ctx : MsgCtx := { desc := desc, path := if isRoot then desc.name else path }
         buildFieldCore fuel cfg req ctx f (keysOf ctx f) (goTypeOf cfg ctx f) (f.card == .map) (f.card == .repeated)
           f.comment.isSome = .error e) :
    ∃ e', buildMessage (fuel + 1) cfg req desc isRoot path = .error e' :=
  field_error_fails_message fuel cfg req desc isRoot path f hf ⟨e, h⟩

/-! ## 2. an error in the nested message / the map value aborts the field -/

theorem nested_error_fails_field (fuel' : Nat) (cfg : CfgView) (req : Request) (ctx : MsgCtx) (f : FieldD) (keys : Keys)
    (goType : String) (isRep hasComment : Bool) (tf : TfType) (d : MsgD)
    (hex : cfg.excluded keys = false)
    (htf : getTerraformType cfg f false isRep goType keys.path = .ok tf)
    (hm : tf.isMessage = true)
    (hfind : req.findMessage f.typeName = some d)
    (hb : IsErr (buildMessage fuel' cfg req d false keys.path)) :
    IsErr (buildFieldCore (fuel' + 1) cfg req ctx f keys goType false isRep hasComment) := by
  obtain ⟨e, he⟩ := hb
  exact ⟨e, core_nested_error fuel' cfg req ctx f keys goType isRep hasComment tf d e hex htf hm hfind he⟩

/-- map fields: an error of the recursive call for the value field aborts the map field (whatever the
outcome of the type lookup and of the key check, which come first and can only fail themselves) -/
theorem map_value_error_fails_field (fuel' : Nat) (cfg : CfgView) (req : Request) (ctx : MsgCtx) (f : FieldD) (keys : Keys)
    (goType : String) (isRep hasComment : Bool)
    (hex : cfg.excluded keys = false)
    (hv : IsErr (buildFieldCore fuel' cfg req ctx f.mapValueField keys (mapValueGoType cfg f) false false false)) :
    IsErr (buildFieldCore (fuel' + 1) cfg req ctx f keys goType true isRep hasComment) := by
  obtain ⟨e, he⟩ := hv
  cases htf : getTerraformType cfg f true isRep goType keys.path with
  | error e1 => exact ⟨e1, core_tf_error fuel' cfg req ctx f keys goType true isRep hasComment e1 hex htf⟩
  | ok tf =>
    by_cases hk : scalarGoType f.mapKey = "string"
    · exact ⟨e, core_map_value_error fuel' cfg req ctx f keys goType isRep hasComment tf e hex htf hk he⟩
    · exact ⟨_, core_map_key fuel' cfg req ctx f keys goType isRep hasComment tf hex htf hk⟩

/-! ## 3. failure chains of any length -/

/-- `FailsAt cfg req ctx f keys goType isMap isRep`: the field occurrence `f` (built in context `ctx` under
option keys `keys`, with Go type `goType`) is not excluded and either cannot be mapped itself (leaf cases) or
leads - through its message type or its map value - to a field occurrence that `FailsAt`.
No fuel, no acyclicity assumption: a chain is a finite derivation. -/
inductive FailsAt (cfg : CfgView) (req : Request) : MsgCtx → FieldD → Keys → String → Bool → Bool → Prop
  /-- `getTerraformType` fails: time / duration without configured type, unknown field type -/
  | tfType {ctx f keys goType isMap isRep} (e : BuildError)
      (hex : cfg.excluded keys = false)
      (htf : getTerraformType cfg f isMap isRep goType keys.path = .error e) :
      FailsAt cfg req ctx f keys goType isMap isRep
  /-- the message type is not in the request -/
  | unknownMessage {ctx f keys goType isRep} (tf : TfType)
      (hex : cfg.excluded keys = false)
      (htf : getTerraformType cfg f false isRep goType keys.path = .ok tf)
      (hm : tf.isMessage = true)
      (hfind : req.findMessage f.typeName = none) :
      FailsAt cfg req ctx f keys goType false isRep
  /-- a map whose key is not a string -/
  | mapKey {ctx f keys goType isRep}
      (hex : cfg.excluded keys = false)
      (hk : scalarGoType f.mapKey ≠ "string") :
      FailsAt cfg req ctx f keys goType true isRep
  /-- step: message-typed field → the nested message `d` → one of its declared fields `g` -/
  | nested {ctx f keys goType isRep} (tf : TfType) (d : MsgD) (g : FieldD)
      (hex : cfg.excluded keys = false)
      (htf : getTerraformType cfg f false isRep goType keys.path = .ok tf)
      (hm : tf.isMessage = true)
      (hfind : req.findMessage f.typeName = some d)
      (hg : g ∈ d.fields)
      (hrec : FailsAt cfg req (ctxOf d false keys.path) g (keysOf (ctxOf d false keys.path) g)
                (goTypeOf cfg (ctxOf d false keys.path) g) (g.card == .map) (g.card == .repeated)) :
      FailsAt cfg req ctx f keys goType false isRep
  /-- step: map field → its value field (same context, same keys) -/
  | mapValue {ctx f keys goType isRep}
      (hex : cfg.excluded keys = false)
      (hrec : FailsAt cfg req ctx f.mapValueField keys (mapValueGoType cfg f) false false) :
      FailsAt cfg req ctx f keys goType true isRep
  /-- a map whose value field never yields an attribute ("expected at least one field"; e.g. an embedded
  message all of whose fields are excluded) -/
  | mapValueEmpty {ctx f keys goType isRep}
      (hex : cfg.excluded keys = false)
      (hv : ∀ n r, buildFieldCore n cfg req ctx f.mapValueField keys (mapValueGoType cfg f) false false false = .ok r →
              r = []) :
      FailsAt cfg req ctx f keys goType true isRep

/-- a chain starting at message `desc`: one of its declared fields fails -/
def MsgFailsAt (cfg : CfgView) (req : Request) (desc : MsgD) (isRoot : Bool) (path : String) : Prop :=
  ∃ f ∈ desc.fields, FailsAt cfg req (ctxOf desc isRoot path) f (keysOf (ctxOf desc isRoot path) f)
    (goTypeOf cfg (ctxOf desc isRoot path) f) (f.card == .map) (f.card == .repeated)

theorem buildMessage_zero (cfg : CfgView) (req : Request) (desc : MsgD) (isRoot : Bool) (path : String) :
    buildMessage 0 cfg req desc isRoot path = .error .recursionLimit := by
  unfold buildMessage; rfl

theorem buildFieldCore_zero (cfg : CfgView) (req : Request) (ctx : MsgCtx) (f : FieldD) (keys : Keys)
    (goType : String) (isMap isRep hasComment : Bool) :
    buildFieldCore 0 cfg req ctx f keys goType isMap isRep hasComment = .error .recursionLimit := by
  unfold buildFieldCore; rfl

/-- a failing field occurrence makes `buildFieldCore` fail, for every fuel (induction over the chain) -/
theorem failsAt_fails_field {cfg : CfgView} {req : Request} {ctx : MsgCtx} {f : FieldD} {keys : Keys} {goType : String}
    {isMap isRep : Bool} (h : FailsAt cfg req ctx f keys goType isMap isRep) :
    ∀ (fuel : Nat) (hasComment : Bool), IsErr (buildFieldCore fuel cfg req ctx f keys goType isMap isRep hasComment) := by
  induction h with
  | tfType e hex htf =>
    intro fuel hc
    cases fuel with
    | zero => exact ⟨_, buildFieldCore_zero ..⟩
    | succ n => exact ⟨e, core_tf_error n cfg req _ _ _ _ _ _ hc e hex htf⟩
  | unknownMessage tf hex htf hm hfind =>
    intro fuel hc
    cases fuel with
    | zero => exact ⟨_, buildFieldCore_zero ..⟩
    | succ n => exact ⟨_, core_unknown_message n cfg req _ _ _ _ _ hc tf hex htf hm hfind⟩
  | @mapKey ctx f keys goType isRep hex hk =>
    intro fuel hc
    cases fuel with
    | zero => exact ⟨_, buildFieldCore_zero ..⟩
    | succ n =>
      cases htf : getTerraformType cfg f true isRep goType keys.path with
      | error e1 => exact ⟨e1, core_tf_error n cfg req ctx f keys goType true isRep hc e1 hex htf⟩
      | ok tf => exact ⟨_, core_map_key n cfg req ctx f keys goType isRep hc tf hex htf hk⟩
  | nested tf d g hex htf hm hfind hg _ ih =>
    intro fuel hc
    cases fuel with
    | zero => exact ⟨_, buildFieldCore_zero ..⟩
    | succ n =>
      refine nested_error_fails_field n cfg req _ _ _ _ _ hc tf d hex htf hm hfind ?_
      cases n with
      | zero => exact ⟨_, buildMessage_zero ..⟩
      | succ k => exact field_error_fails_message k cfg req d false _ g hg (ih k _)
  | mapValue hex _ ih =>
    intro fuel hc
    cases fuel with
    | zero => exact ⟨_, buildFieldCore_zero ..⟩
    | succ n => exact map_value_error_fails_field n cfg req _ _ _ _ _ hc hex (ih n false)
  | @mapValueEmpty ctx f keys goType isRep hex hv =>
    intro fuel hc
    cases fuel with
    | zero => exact ⟨_, buildFieldCore_zero ..⟩
    | succ n =>
      cases hval : buildFieldCore n cfg req ctx f.mapValueField keys (mapValueGoType cfg f) false false false with
      | error e => exact map_value_error_fails_field n cfg req ctx f keys goType isRep hc hex ⟨e, hval⟩
      | ok r =>
        have hr := hv n r hval
        subst hr
        cases htf : getTerraformType cfg f true isRep goType keys.path with
        | error e1 => exact ⟨e1, core_tf_error n cfg req ctx f keys goType true isRep hc e1 hex htf⟩
        | ok tf =>
          by_cases hk : scalarGoType f.mapKey = "string"
          · exact ⟨_, core_map_value_empty n cfg req ctx f keys goType isRep hc tf hex htf hk hval⟩
          · exact ⟨_, core_map_key n cfg req ctx f keys goType isRep hc tf hex htf hk⟩

/-- **Main theorem.** A failure chain of any length below a (root or nested) message makes its build fail,
for every fuel. -/
theorem failsAt_fails_message (cfg : CfgView) (req : Request) (desc : MsgD) (isRoot : Bool) (path : String)
    (h : MsgFailsAt cfg req desc isRoot path) (fuel : Nat) :
    IsErr (buildMessage fuel cfg req desc isRoot path) := by
  obtain ⟨f, hf, hfa⟩ := h
  cases fuel with
  | zero => exact ⟨_, buildMessage_zero ..⟩
  | succ n => exact field_error_fails_message n cfg req desc isRoot path f hf (failsAt_fails_field hfa n _)

/-- the selected root: a chain below it makes `buildRoot` fail -/
theorem failsAt_fails_root (cfg : Config) (req : Request) (desc : MsgD)
    (hsel : cfg.types.contains desc.name = true)
    (h : MsgFailsAt (viewOf cfg) req desc true "") :
    IsErr (buildRoot cfg req desc) := by
  obtain ⟨e, he⟩ := failsAt_fails_message (viewOf cfg) req desc true "" h (defaultFuel req)
  refine ⟨e, ?_⟩
  unfold buildRoot
  simp only [hsel, he]
  rfl

/-- ... it is reported as failed ... -/
theorem failsAt_root_reported (cfg : Config) (req : Request) (desc : MsgD)
    (hd : desc ∈ req.allFiles.flatMap (·.messages))
    (hsel : cfg.types.contains desc.name = true)
    (h : MsgFailsAt (viewOf cfg) req desc true "") :
    desc.name ∈ (buildRoots cfg req).2 := by
  obtain ⟨e, he⟩ := failsAt_fails_root cfg req desc hsel h
  unfold buildRoots
  simp only [List.mem_filterMap, List.mem_map]
  exact ⟨(desc.name, buildRoot cfg req desc), ⟨desc, hd, rfl⟩, by simp [he]⟩

/-- ... and every emitted root comes from a descriptor without any failure chain -/
theorem emitted_root_has_no_chain (cfg : Config) (req : Request) (m : Msg)
    (h : m ∈ (buildRoots cfg req).1) :
    ∃ d ∈ req.allFiles.flatMap (·.messages), buildRoot cfg req d = .ok (some m) ∧
      ¬ MsgFailsAt (viewOf cfg) req d true "" := by
  obtain ⟨d, hd, hb⟩ := C18_failed_root_not_emitted cfg req m h
  refine ⟨d, hd, hb, fun hc => ?_⟩
  have hsel : cfg.types.contains d.name = true := by
    cases hs : cfg.types.contains d.name with
    | true => rfl
    | false =>
      unfold buildRoot at hb
      simp only [hs] at hb
      cases hb
  obtain ⟨e, he⟩ := failsAt_fails_root cfg req d hsel hc
  rw [he] at hb; cases hb

/-! ## 4. converse: a built message has all its declared fields built; exclusion never contributes an error -/

theorem built_message_fields_ok (fuel : Nat) (cfg : CfgView) (req : Request) (desc : MsgD) (isRoot : Bool) (path : String)
    (m : Msg) (h : buildMessage (fuel + 1) cfg req desc isRoot path = .ok m) :
    ∀ f ∈ desc.fields, ∃ fs, fieldCall fuel cfg req (ctxOf desc isRoot path) f = .ok fs := by
  intro f hf
  cases hc : fieldCall fuel cfg req (ctxOf desc isRoot path) f with
  | ok fs => exact ⟨fs, rfl⟩
  | error e =>
    obtain ⟨e', he'⟩ := field_error_fails_message fuel cfg req desc isRoot path f hf ⟨e, hc⟩
    rw [he'] at h; cases h

/-- fuel 0 never builds anything -/
theorem built_message_fuel_pos (fuel : Nat) (cfg : CfgView) (req : Request) (desc : MsgD) (isRoot : Bool) (path : String)
    (m : Msg) (h : buildMessage fuel cfg req desc isRoot path = .ok m) : ∃ n, fuel = n + 1 := by
  cases fuel with
  | zero => rw [buildMessage_zero] at h; cases h
  | succ n => exact ⟨n, rfl⟩

/-- a built message has no failure chain below it (contrapositive of the main theorem) -/
theorem built_message_no_chain (fuel : Nat) (cfg : CfgView) (req : Request) (desc : MsgD) (isRoot : Bool) (path : String)
    (m : Msg) (h : buildMessage fuel cfg req desc isRoot path = .ok m) : ¬ MsgFailsAt cfg req desc isRoot path := by
  intro hc
  obtain ⟨e, he⟩ := failsAt_fails_message cfg req desc isRoot path hc fuel
  rw [he] at h; cases h

/-- the exclusion test comes first: an excluded field occurrence is `.ok []` for every positive fuel, whatever
its type, its map key, its message type -/
theorem excluded_field_ok (fuel : Nat) (cfg : CfgView) (req : Request) (ctx : MsgCtx) (f : FieldD) (keys : Keys)
    (goType : String) (isMap isRep hasComment : Bool) (h : cfg.excluded keys = true) :
    buildFieldCore (fuel + 1) cfg req ctx f keys goType isMap isRep hasComment = .ok [] :=
  C18_excluded_first fuel cfg req ctx f keys goType isMap isRep hasComment h

/-- an excluded field occurrence has no failure chain -/
theorem excluded_not_failsAt {cfg : CfgView} {req : Request} {ctx : MsgCtx} {f : FieldD} {keys : Keys} {goType : String}
    {isMap isRep : Bool} (hex : cfg.excluded keys = true) : ¬ FailsAt cfg req ctx f keys goType isMap isRep := by
  intro h
  obtain ⟨e, he⟩ := failsAt_fails_field h 1 false
  rw [excluded_field_ok 0 cfg req ctx f keys goType isMap isRep false hex] at he; cases he

/-! ## 5. (bonus) completeness of `FailsAt`, and independence of successful builds from the fuel -/

/-- the body of `buildFieldCore (fuel'+1)`, with the two recursive calls abstracted: `bm d` is the result of
building the nested message `d`, `bv` the result of building the map value field -/
def coreStep (cfg : CfgView) (req : Request) (ctx : MsgCtx) (f : FieldD) (keys : Keys)
    (goType : String) (isMap isRepeated : Bool) (hasComment : Bool)
    (bm : MsgD → Except BuildError Msg) (bv : Except BuildError (List Field)) : Except BuildError (List Field) :=
  if cfg.excluded keys then .ok []
  else
    let name := goNameS f.name
    let snake := snakeOf cfg f keys
    let isComputed := cfg.computed keys
    let planMods := planModsOf cfg keys
    let comment := commentOf f hasComment
    match getTerraformType cfg f isMap isRepeated goType keys.path with
    | .error e => .error e
    | .ok tf =>
      let info : FieldInfo :=
        { name := name, nameSnake := snake, isRequired := cfg.required keys, isComputed := isComputed,
          isSensitive := cfg.sensitive keys, isRepeated := isRepeated, isMap := isMap,
          isNullable := goType.toList.contains '*',
          validators := (cfg.validators keys).getD [],
          planModifiers := planMods, path := keys.path, comment := comment,
          goType := goType, goElemType := goType, tf := tf, protoType := f.type }
      -- nested message (not for maps)
      let nested : Except BuildError (Option Msg) :=
        if tf.isMessage && !isMap then
          match req.findMessage f.typeName with
          | none => .error (.unknownMessage f.typeName)
          | some d =>
            match bm d with
            | .error e => .error e
            | .ok m => .ok (some m)
        else .ok none
      match nested with
      | .error e => .error e
      | .ok nestedMsg =>
        if tf.isMessage && !isMap && f.embed then
          -- embedded: the nested message's fields take the place of the field
          match nestedMsg with
          | none => .ok []
          | some m =>
            if !info.isNullable then .ok m.fields
            else
              let full := String.ofList (dropStar goType.toList)
              let short := match lastIndexOfChar '.' full.toList with
                | some i => String.ofList (full.toList.drop (i + 1))
                | none => full
              .ok (m.fields.map (markEmbedded full short))
        else
          let info := if isRepeated then { info with goElemType := afterFirstBracket info.goType } else info
          -- map values
          let mapped : Except BuildError (FieldInfo × Option Field) :=
            if isMap then
              if scalarGoType f.mapKey != "string" then .error (.nonStringMapKey keys.path)
              else
                let typ := prependPackageNameIfMissing cfg.importOverride (gogoMapGoType f) cfg.defaultPackageName
                match bv with
                | .error e => .error e
                | .ok [] => .error (.unknownFieldType keys.path)   -- "expected at least one field"
                | .ok (v :: _) =>
                    .ok ({ info with goType := typ, isNullable := typ.toList.contains '*',
                                     tf := { info.tf with elemType := v.info.tf.elemType, elemValueType := v.info.tf.elemValueType,
                                                          valueCastToType := v.info.tf.valueCastToType,
                                                          valueCastFromType := v.info.tf.valueCastFromType },
                                     goElemType := v.info.goElemType }, some v)
            else .ok (info, none)
          match mapped with
          | .error e => .error e
          | .ok (info, mapV) =>
            -- custom type
            let isCustom := isCustomOf cfg f keys
            let suffix := suffixOf cfg f keys
            let mapValIsMessage := match mapV with | some v => v.info.tf.isMessage | none => false
            let kind := kindOf isCustom isMap mapValIsMessage isRepeated info.tf.isMessage
            let (ooName, ooType) :=
              match f.oneof with
              | none => ("", "")
              | some i =>
                (goNameS (ctx.desc.oneofs.getD i ""),
                 msgGoType cfg (ctx.desc.name ++ "_" ++ name))
            let info := { info with isCustomType := isCustom, suffix := suffix, kind := kind,
                                    goElemTypeIndirect := stripChars info.goElemType ['*'],
                                    oneOfName := ooName, oneOfType := ooType }
            let (m, sub) : Option MsgInfo × List Field :=
              match mapV, nestedMsg with
              | some v, _ => (v.msg, v.sub)
              | none, some m => (some m.info, m.fields)
              | none, none => (none, [])
            .ok [{ info := info, mapVal := mapV.map (·.info), msg := m, sub := sub }]


theorem buildFieldCore_succ (fuel' : Nat) (cfg : CfgView) (req : Request) (ctx : MsgCtx) (f : FieldD) (keys : Keys)
    (goType : String) (isMap isRep hasComment : Bool) :
    buildFieldCore (fuel' + 1) cfg req ctx f keys goType isMap isRep hasComment =
      coreStep cfg req ctx f keys goType isMap isRep hasComment
        (fun d => buildMessage fuel' cfg req d false keys.path)
        (buildFieldCore fuel' cfg req ctx f.mapValueField keys (mapValueGoType cfg f) false false false) := by
  rw [buildFieldCore]
  rfl

/-- successful results of `coreStep` only depend on the successful results of the recursive calls -/
theorem coreStep_mono (cfg : CfgView) (req : Request) (ctx : MsgCtx) (f : FieldD) (keys : Keys)
    (goType : String) (isMap isRep hasComment : Bool)
    (bm bm' : MsgD → Except BuildError Msg) (bv bv' : Except BuildError (List Field))
    (hbm : ∀ d m, bm d = .ok m → bm' d = .ok m) (hbv : ∀ r, bv = .ok r → bv' = .ok r)
    (r : List Field) (h : coreStep cfg req ctx f keys goType isMap isRep hasComment bm bv = .ok r) :
    coreStep cfg req ctx f keys goType isMap isRep hasComment bm' bv' = .ok r := by
  unfold coreStep at h ⊢
  cases hex : cfg.excluded keys with
  | true => simp only [hex] at h ⊢; exact h
  | false =>
    cases htf : getTerraformType cfg f isMap isRep goType keys.path with
    | error e => simp only [hex, htf] at h; cases h
    | ok tf =>
      cases hc : (tf.isMessage && !isMap) with
      | true =>
        have hmap : isMap = false := by cases isMap <;> simp_all
        subst hmap
        cases hfind : req.findMessage f.typeName with
        | none => simp only [hex, htf, hc, hfind] at h; cases h
        | some d =>
          cases hb : bm d with
          | error e => simp only [hex, htf, hc, hfind, hb] at h; cases h
          | ok m =>
            have hb' := hbm d m hb
            simp only [hex, htf, hc, hfind, hb, hb'] at h ⊢
            exact h
      | false =>
        cases isMap with
        | false => simp only [hex, htf, hc] at h ⊢; exact h
        | true =>
          by_cases hk : scalarGoType f.mapKey = "string"
          · cases hv : bv with
            | error e => simp [hex, htf, hk, hv] at h
            | ok l =>
              cases l with
              | nil => simp [hex, htf, hk, hv] at h
              | cons v vs =>
                have hv' := hbv _ hv
                simp only [hex, htf, hc, hk, hv, hv'] at h ⊢
                exact h
          · simp [hex, htf, hk] at h

/-- where an error of `coreStep` comes from -/
theorem coreStep_error_inv (cfg : CfgView) (req : Request) (ctx : MsgCtx) (f : FieldD) (keys : Keys)
    (goType : String) (isMap isRep hasComment : Bool)
    (bm : MsgD → Except BuildError Msg) (bv : Except BuildError (List Field)) (e : BuildError)
    (h : coreStep cfg req ctx f keys goType isMap isRep hasComment bm bv = .error e) :
    cfg.excluded keys = false ∧
    (getTerraformType cfg f isMap isRep goType keys.path = .error e ∨
     ∃ tf, getTerraformType cfg f isMap isRep goType keys.path = .ok tf ∧
       ((isMap = false ∧ tf.isMessage = true ∧ req.findMessage f.typeName = none) ∨
        (isMap = false ∧ tf.isMessage = true ∧ ∃ d, req.findMessage f.typeName = some d ∧ bm d = .error e) ∨
        (isMap = true ∧ scalarGoType f.mapKey ≠ "string") ∨
        (isMap = true ∧ scalarGoType f.mapKey = "string" ∧ bv = .error e) ∨
        (isMap = true ∧ scalarGoType f.mapKey = "string" ∧ bv = .ok []))) := by
  unfold coreStep at h
  cases hex : cfg.excluded keys with
  | true => simp only [hex] at h; cases h
  | false =>
    refine ⟨rfl, ?_⟩
    cases htf : getTerraformType cfg f isMap isRep goType keys.path with
    | error e1 =>
      simp only [hex, htf] at h
      injection h with h
      subst h
      exact Or.inl rfl
    | ok tf =>
      refine Or.inr ⟨tf, rfl, ?_⟩
      cases hc : (tf.isMessage && !isMap) with
      | true =>
        have hmap : isMap = false := by cases isMap <;> simp_all
        subst hmap
        have hm : tf.isMessage = true := by simpa using hc
        cases hfind : req.findMessage f.typeName with
        | none => exact Or.inl ⟨rfl, hm, rfl⟩
        | some d =>
          cases hb : bm d with
          | error e1 =>
            simp only [hex, htf, hc, hfind, hb] at h
            injection h with h
            subst h
            exact Or.inr (Or.inl ⟨rfl, hm, d, rfl, hb⟩)
          | ok m =>
            exfalso
            simp only [hex, htf, hc, hfind, hb] at h
            simp at h
            split at h
            · split at h <;> cases h
            · cases h
      | false =>
        cases isMap with
        | false =>
          exfalso
          simp only [hex, htf, hc] at h
          simp at h
          done
        | true =>
          by_cases hk : scalarGoType f.mapKey = "string"
          · cases hv : bv with
            | error e1 =>
              have : e1 = e := by simpa [hex, htf, hk, hv] using h
              subst this
              exact Or.inr (Or.inr (Or.inr (Or.inl ⟨rfl, hk, rfl⟩)))
            | ok l =>
              cases l with
              | nil => exact Or.inr (Or.inr (Or.inr (Or.inr ⟨rfl, hk, rfl⟩)))
              | cons v vs =>
                exfalso
                simp only [hex, htf, hc, hk, hv] at h
                simp at h
                done
          · exact Or.inr (Or.inr (Or.inl ⟨rfl, hk⟩))

/-- the body of `buildMessage (fuel+1)` with the collected field results abstracted -/
def msgStep (cfg : CfgView) (desc : MsgD) (isRoot : Bool) (path : String)
    (collected : Except BuildError (List Field)) : Except BuildError Msg :=
    let ctx : MsgCtx := { desc := desc, path := if isRoot then desc.name else path }
    let fieldsE : Except BuildError (List Field) :=
      if desc.fields.isEmpty then .ok [placeholderField ctx.path]
      else
        match collected with
        | .error e => .error e
        | .ok fs => .ok (if cfg.sort then sortFieldsByName fs else fs)
    match fieldsE with
    | .error e => .error e
    | .ok fields =>
      .ok { info := { name := desc.name, goType := msgGoType cfg desc.name, path := ctx.path,
                      namePath := namePathOf ctx.path desc.name, isRoot := isRoot,
                      injected := cfg.injected ctx.path,
                      oneOfNames := (let ns := withPromotedOneOfs (oneOfNames desc) fields
                                     if cfg.sort then sortStrings ns else ns), isEmpty := desc.fields.isEmpty,
                      comment := match desc.comment with | some c => String.ofList (messageComment c.toList) | none => "" },
            fields := fields }

theorem buildMessage_succ (fuel : Nat) (cfg : CfgView) (req : Request) (desc : MsgD) (isRoot : Bool) (path : String) :
    buildMessage (fuel + 1) cfg req desc isRoot path =
      msgStep cfg desc isRoot path
        (collectFields (desc.fields.map fun f => fieldCall fuel cfg req (ctxOf desc isRoot path) f)) := by
  rw [buildMessage]
  rfl

theorem msgStep_error_inv (cfg : CfgView) (desc : MsgD) (isRoot : Bool) (path : String)
    (c : Except BuildError (List Field)) (e : BuildError) (h : msgStep cfg desc isRoot path c = .error e) :
    c = .error e := by
  unfold msgStep at h
  cases hemp : desc.fields.isEmpty with
  | true => simp [hemp] at h
  | false =>
    cases c with
    | error e1 => simpa [hemp] using h
    | ok fs => simp [hemp] at h

theorem msgStep_mono (cfg : CfgView) (desc : MsgD) (isRoot : Bool) (path : String)
    (c c' : Except BuildError (List Field)) (hc : ∀ r, c = .ok r → c' = .ok r) (m : Msg)
    (h : msgStep cfg desc isRoot path c = .ok m) : msgStep cfg desc isRoot path c' = .ok m := by
  cases c with
  | ok fs => rw [hc fs rfl]; exact h
  | error e =>
    unfold msgStep at h ⊢
    cases hemp : desc.fields.isEmpty with
    | true => simp only [hemp] at h ⊢; exact h
    | false => simp [hemp] at h

theorem collect_error_inv {ε α} (l : List (Except ε (List α))) (e : ε) (h : collectFields l = .error e) :
    Except.error e ∈ l := by
  induction l with
  | nil => simp [collectFields] at h
  | cons x rest ih =>
    cases x with
    | error e0 =>
      simp only [collectFields] at h
      injection h with h
      subst h
      simp
    | ok fs =>
      simp only [collectFields] at h
      cases hr : collectFields rest with
      | error e1 =>
        simp only [hr] at h
        injection h with h
        subst h
        simp [ih hr]
      | ok more => simp [hr] at h

theorem collect_mono {ε α β} (g g' : β → Except ε (List α)) (l : List β)
    (hg : ∀ x ∈ l, ∀ r, g x = .ok r → g' x = .ok r) (r : List α)
    (h : collectFields (l.map g) = .ok r) : collectFields (l.map g') = .ok r := by
  induction l generalizing r with
  | nil => exact h
  | cons x rest ih =>
    simp only [List.map] at h ⊢
    cases hx : g x with
    | error e => simp [hx, collectFields] at h
    | ok fs =>
      rw [hx] at h
      rw [hg x (by simp) fs hx]
      simp only [collectFields] at h ⊢
      cases hr : collectFields (rest.map g) with
      | error e => simp [hr] at h
      | ok more =>
        rw [ih (fun y hy => hg y (by simp [hy])) more hr]
        rw [hr] at h
        exact h

/-- **Fuel independence.** More fuel never changes a successful build. -/
theorem fuel_mono_succ (cfg : CfgView) (req : Request) (n : Nat) :
    (∀ desc isRoot path m, buildMessage n cfg req desc isRoot path = .ok m →
        buildMessage (n + 1) cfg req desc isRoot path = .ok m) ∧
    (∀ ctx f keys goType isMap isRep hasComment r,
        buildFieldCore n cfg req ctx f keys goType isMap isRep hasComment = .ok r →
        buildFieldCore (n + 1) cfg req ctx f keys goType isMap isRep hasComment = .ok r) := by
  induction n with
  | zero =>
    constructor
    · intro desc isRoot path m h; rw [buildMessage_zero] at h; cases h
    · intro ctx f keys goType isMap isRep hc r h; rw [buildFieldCore_zero] at h; cases h
  | succ n ih =>
    obtain ⟨ihM, ihF⟩ := ih
    constructor
    · intro desc isRoot path m h
      rw [buildMessage_succ] at h ⊢
      refine msgStep_mono cfg desc isRoot path _ _ ?_ m h
      intro r hr
      exact collect_mono _ _ desc.fields (fun x _ r hx => ihF _ _ _ _ _ _ _ r hx) r hr
    · intro ctx f keys goType isMap isRep hc r h
      rw [buildFieldCore_succ] at h ⊢
      exact coreStep_mono cfg req ctx f keys goType isMap isRep hc _ _ _ _
        (fun d m hd => ihM d false keys.path m hd) (fun r hr => ihF _ _ _ _ _ _ _ r hr) r h

theorem fuel_mono (cfg : CfgView) (req : Request) (n k : Nat) :
    (∀ desc isRoot path m, buildMessage n cfg req desc isRoot path = .ok m →
        buildMessage (n + k) cfg req desc isRoot path = .ok m) ∧
    (∀ ctx f keys goType isMap isRep hasComment r,
        buildFieldCore n cfg req ctx f keys goType isMap isRep hasComment = .ok r →
        buildFieldCore (n + k) cfg req ctx f keys goType isMap isRep hasComment = .ok r) := by
  induction k with
  | zero => exact ⟨fun _ _ _ _ h => h, fun _ _ _ _ _ _ _ _ h => h⟩
  | succ k ih =>
    obtain ⟨ihM, ihF⟩ := ih
    obtain ⟨sM, sF⟩ := fuel_mono_succ cfg req (n + k)
    exact ⟨fun d i p m h => sM d i p m (ihM d i p m h),
           fun c f ks g a b hc r h => sF c f ks g a b hc r (ihF c f ks g a b hc r h)⟩

/-- two successful builds of the same message with different fuel agree -/
theorem buildMessage_ok_unique (cfg : CfgView) (req : Request) (n k : Nat) (desc : MsgD) (isRoot : Bool) (path : String)
    (m m' : Msg) (h : buildMessage n cfg req desc isRoot path = .ok m)
    (h' : buildMessage k cfg req desc isRoot path = .ok m') : m = m' := by
  rcases Nat.le_total n k with hle | hle
  · obtain ⟨j, rfl⟩ := Nat.exists_eq_add_of_le hle
    have := (fuel_mono cfg req n j).1 desc isRoot path m h
    rw [this] at h'; injection h'
  · obtain ⟨j, rfl⟩ := Nat.exists_eq_add_of_le hle
    have := (fuel_mono cfg req k j).1 desc isRoot path m' h'
    rw [this] at h; injection h with h; exact h.symm

theorem buildFieldCore_ok_unique (cfg : CfgView) (req : Request) (n k : Nat) (ctx : MsgCtx) (f : FieldD) (keys : Keys)
    (goType : String) (isMap isRep hasComment : Bool) (r r' : List Field)
    (h : buildFieldCore n cfg req ctx f keys goType isMap isRep hasComment = .ok r)
    (h' : buildFieldCore k cfg req ctx f keys goType isMap isRep hasComment = .ok r') : r = r' := by
  rcases Nat.le_total n k with hle | hle
  · obtain ⟨j, rfl⟩ := Nat.exists_eq_add_of_le hle
    have := (fuel_mono cfg req n j).2 ctx f keys goType isMap isRep hasComment r h
    rw [this] at h'; injection h'
  · obtain ⟨j, rfl⟩ := Nat.exists_eq_add_of_le hle
    have := (fuel_mono cfg req k j).2 ctx f keys goType isMap isRep hasComment r' h'
    rw [this] at h; injection h with h; exact h.symm

/-- **Completeness of `FailsAt`.** Every build error other than the fuel bound is witnessed by a failure chain. -/
theorem error_has_chain (cfg : CfgView) (req : Request) (n : Nat) :
    (∀ desc isRoot path e, buildMessage n cfg req desc isRoot path = .error e →
        e = .recursionLimit ∨ MsgFailsAt cfg req desc isRoot path) ∧
    (∀ ctx f keys goType isMap isRep hasComment e,
        buildFieldCore n cfg req ctx f keys goType isMap isRep hasComment = .error e →
        e = .recursionLimit ∨ FailsAt cfg req ctx f keys goType isMap isRep) := by
  induction n with
  | zero =>
    constructor
    · intro desc isRoot path e h
      rw [buildMessage_zero] at h; injection h with h; exact Or.inl h.symm
    · intro ctx f keys goType isMap isRep hc e h
      rw [buildFieldCore_zero] at h; injection h with h; exact Or.inl h.symm
  | succ n ih =>
    obtain ⟨ihM, ihF⟩ := ih
    constructor
    · intro desc isRoot path e h
      rw [buildMessage_succ] at h
      have hmem := collect_error_inv _ e (msgStep_error_inv cfg desc isRoot path _ e h)
      obtain ⟨f, hf, hfe⟩ := List.mem_map.mp hmem
      rcases ihF _ _ _ _ _ _ _ e hfe with hr | hfa
      · exact Or.inl hr
      · exact Or.inr ⟨f, hf, hfa⟩
    · intro ctx f keys goType isMap isRep hc e h
      rw [buildFieldCore_succ] at h
      obtain ⟨hex, hcases⟩ := coreStep_error_inv cfg req ctx f keys goType isMap isRep hc _ _ e h
      rcases hcases with htf | ⟨tf, htf, hrest⟩
      · exact Or.inr (.tfType e hex htf)
      · rcases hrest with ⟨rfl, hm, hfind⟩ | ⟨rfl, hm, d, hfind, hb⟩ | ⟨rfl, hk⟩ | ⟨rfl, hk, hv⟩ | ⟨rfl, hk, hv⟩
        · exact Or.inr (.unknownMessage tf hex htf hm hfind)
        · rcases ihM d false keys.path e hb with hr | ⟨g, hg, hfa⟩
          · exact Or.inl hr
          · exact Or.inr (.nested tf d g hex htf hm hfind hg hfa)
        · exact Or.inr (.mapKey hex hk)
        · rcases ihF _ _ _ _ _ _ _ e hv with hr | hfa
          · exact Or.inl hr
          · exact Or.inr (.mapValue hex hfa)
        · exact Or.inr (.mapValueEmpty hex fun k r hk' =>
            (buildFieldCore_ok_unique cfg req n k ctx f.mapValueField keys _ false false false [] r hv hk').symm)

/-- for every fuel: the build of a message either succeeds, or runs into the fuel bound, or there is a failure
chain - and a failure chain excludes success at every fuel -/
theorem build_trichotomy (cfg : CfgView) (req : Request) (fuel : Nat) (desc : MsgD) (isRoot : Bool) (path : String) :
    (∃ m, buildMessage fuel cfg req desc isRoot path = .ok m ∧ ¬ MsgFailsAt cfg req desc isRoot path) ∨
    buildMessage fuel cfg req desc isRoot path = .error .recursionLimit ∨
    (MsgFailsAt cfg req desc isRoot path ∧ ∀ k, IsErr (buildMessage k cfg req desc isRoot path)) := by
  cases h : buildMessage fuel cfg req desc isRoot path with
  | ok m => exact Or.inl ⟨m, rfl, built_message_no_chain fuel cfg req desc isRoot path m h⟩
  | error e =>
    rcases (error_has_chain cfg req fuel).1 desc isRoot path e h with hr | hc
    · subst hr; exact Or.inr (Or.inl rfl)
    · exact Or.inr (Or.inr ⟨hc, failsAt_fails_message cfg req desc isRoot path hc⟩)

theorem collect_ok_of_all_ok {ε α β} (g : β → Except ε (List α)) (l : List β)
    (h : ∀ x ∈ l, ∃ r, g x = .ok r) : ∃ r, collectFields (l.map g) = .ok r := by
  induction l with
  | nil => exact ⟨[], rfl⟩
  | cons x rest ih =>
    obtain ⟨fs, hfs⟩ := h x (by simp)
    obtain ⟨more, hmore⟩ := ih (fun y hy => h y (by simp [hy]))
    exact ⟨fs ++ more, by simp only [List.map, hfs, collectFields, hmore]⟩

/-- a message is built exactly when each of its declared fields is (whole or not at all, one level) -/
theorem message_ok_iff_fields_ok (fuel : Nat) (cfg : CfgView) (req : Request) (desc : MsgD) (isRoot : Bool) (path : String) :
    (∃ m, buildMessage (fuel + 1) cfg req desc isRoot path = .ok m) ↔
    ∀ f ∈ desc.fields, ∃ fs, fieldCall fuel cfg req (ctxOf desc isRoot path) f = .ok fs := by
  constructor
  · rintro ⟨m, h⟩
    exact built_message_fields_ok fuel cfg req desc isRoot path m h
  · intro h
    cases hb : buildMessage (fuel + 1) cfg req desc isRoot path with
    | ok m => exact ⟨m, rfl⟩
    | error e =>
      exfalso
      rw [buildMessage_succ] at hb
      have hc := msgStep_error_inv cfg desc isRoot path _ e hb
      obtain ⟨r, hr⟩ := collect_ok_of_all_ok (fun f => fieldCall fuel cfg req (ctxOf desc isRoot path) f) desc.fields h
      rw [hr] at hc; cases hc

/-- excluding the offending field restores generation: if every declared field other than `f0` builds and `f0`
is excluded, the message builds (at positive inner fuel) -/
theorem exclusion_restores_message (fuel : Nat) (cfg : CfgView) (req : Request) (desc : MsgD) (isRoot : Bool) (path : String)
    (f0 : FieldD) (hex : cfg.excluded (keysOf (ctxOf desc isRoot path) f0) = true)
    (hothers : ∀ f ∈ desc.fields, f ≠ f0 → ∃ fs, fieldCall (fuel + 1) cfg req (ctxOf desc isRoot path) f = .ok fs) :
    ∃ m, buildMessage (fuel + 2) cfg req desc isRoot path = .ok m := by
  refine (message_ok_iff_fields_ok (fuel + 1) cfg req desc isRoot path).mpr ?_
  intro f hf
  by_cases hff : f = f0
  · subst hff
    exact ⟨[], excluded_field_ok fuel cfg req _ f _ _ _ _ _ hex⟩
  · exact hothers f hf hff

/-! ## 6. the chains are not vacuous: a concrete failure three messages deep -/

/-- a (non-time, non-duration) message field is mapped to an object type, whose nested message is then built -/
theorem message_field_tf (cfg : CfgView) (f : FieldD) (isRep : Bool) (goType path : String)
    (h1 : f.type = "message") (h2 : f.isTime = false) (h3 : f.isDuration cfg.durationCustomType = false) :
    ∃ tf, getTerraformType cfg f false isRep goType path = .ok tf ∧ tf.isMessage = true := by
  unfold getTerraformType
  have hrow : Generated.typeRows.find? (rowMatches cfg f false) =
      some { kind := "message", protos := [], stds := [], base := "objectType", castFrom := "", isMessage := true } := by
    simp [Generated.typeRows, List.find?, rowMatches, h2, h3, FieldD.protoTag, h1]
  simp [hrow, Generated.bases, List.find?]
  repeat' split
  all_goals rfl

namespace Witness

def cfg0 : CfgView :=
  { excluded := fun _ => false, computed := fun _ => false, required := fun _ => false, sensitive := fun _ => false,
    nameOverride := fun _ => none, validators := fun _ => none, planModifiers := fun _ => none,
    customType := fun _ => none, suffix := fun _ => none, injected := fun _ => [], importOverride := [],
    defaultPackageName := "", durationCustomType := "", sort := false, useStateForUnknownByDefault := false,
    timeType := none, durationType := none }

def fT : FieldD := { name := "t", type := "timestamp" }
def fC : FieldD := { name := "c", type := "message", typeName := "C", card := .repeated }
def fB : FieldD := { name := "b", type := "message", typeName := "B" }
def msgC : MsgD := { name := "C", fields := [fT] }
def msgB : MsgD := { name := "B", fields := [{ name := "s", type := "string" }, fC] }
def msgA : MsgD := { name := "A", fields := [fB] }
def req0 : Request := { file := { name := "x.proto", package := "x", messages := [msgA, msgB, msgC] } }

/-- `A.b : B`, `B.c : repeated C`, `C.t : Timestamp`, no `time_type` configured: `A` has a failure chain -/
theorem chain_A : MsgFailsAt cfg0 req0 msgA true "" := by
  refine ⟨fB, by simp [msgA], ?_⟩
  obtain ⟨tfB, htfB, hmB⟩ := message_field_tf cfg0 fB false
    (goTypeOf cfg0 (ctxOf msgA true "") fB) (keysOf (ctxOf msgA true "") fB).path rfl (by decide) (by decide)
  refine .nested tfB msgB fC rfl htfB hmB (by decide) (by simp [msgB]) ?_
  obtain ⟨tfC, htfC, hmC⟩ := message_field_tf cfg0 fC true
    (goTypeOf cfg0 (ctxOf msgB false (keysOf (ctxOf msgA true "") fB).path) fC)
    (keysOf (ctxOf msgB false (keysOf (ctxOf msgA true "") fB).path) fC).path rfl (by decide) (by decide)
  refine .nested tfC msgC fT rfl htfC hmC (by decide) (by simp [msgC]) ?_
  exact .tfType _ rfl (C18_time_unmappable cfg0 fT _ _ _ _ (by decide) rfl)

/-- hence `A` is not generated, whatever the fuel -/
theorem A_never_built (fuel : Nat) : IsErr (buildMessage fuel cfg0 req0 msgA true "") :=
  failsAt_fails_message cfg0 req0 msgA true "" chain_A fuel

end Witness

end PGT.Proofs.BuildErrors

section
open PGT.Proofs.BuildErrors
#print axioms field_error_fails_message
#print axioms nested_error_fails_field
#print axioms map_value_error_fails_field
#print axioms failsAt_fails_field
#print axioms failsAt_fails_message
#print axioms failsAt_fails_root
#print axioms failsAt_root_reported
#print axioms emitted_root_has_no_chain
#print axioms built_message_fields_ok
#print axioms excluded_field_ok
#print axioms excluded_not_failsAt
#print axioms message_ok_iff_fields_ok
#print axioms exclusion_restores_message
#print axioms fuel_mono
#print axioms error_has_chain
#print axioms build_trichotomy
#print axioms Witness.A_never_built
end
