import PGT.Proofs.RequestIndep

/-
FUEL SUFFICIENCY - the fuel bound of the model (`recursionLimit`) is never visible on acyclic requests.

Cost analysis: `buildMessage (F+1)` calls `buildFieldCore F` for every field; `buildFieldCore (G+1)` calls `buildMessage G` for a
message-typed non-map field, and `buildFieldCore G` on the value field for a map field (which then calls `buildMessage (G-1)`).
So one level of nesting costs at most 3 units, a message without references needs 3 (message, field, map value), and
`defaultFuel req = 3 * #messages + 4`.

  1. `depthOk n req d`, `Acyclic req`        decidable: every reference chain from `d` ends within `n` messages; `Acyclic` = this
                                             holds for every message with `n` = number of messages. References are counted
                                             configuration-independently (fields with proto tag MESSAGE, `RequestIndep.refTag`).
  2. `depth_stable`                          `depthOk n req d`, `3 * n ≤ F`  ⇒  `buildMessage (F + k) … d = buildMessage F … d`
  3. `getTerraformType_ne_rl`, `coreStep_ne_rl`, `depth_ne_rl`
                                             … and that result is not `.error .recursionLimit`
  4. `fuel_enough`, `fuel_bound_invisible`, `buildRoot_ne_rl`, `acyclic_error_has_chain`
                                             the same at `defaultFuel req`, for every message of an acyclic request
  5. `rankOk`, `acyclic_of_rank`             a strictly decreasing rank function (< number of messages) is a certificate
  6. `extend_buildRoot_acyclic`, `extend_buildRoot_error_acyclic`, `extend_buildRoot_unreferenced_acyclic`,
     `buildRoots_extend_unselected_acyclic`, `buildRoots_extend_old_roots_acyclic`
                                             the extension theorems of `RequestIndep.lean` without the fuel-bound alternative
  7. `Example`                               `Acyclic` by `decide`; the six-message chain through maps builds with the default
                                             fuel, needs exactly 17 units
-/

namespace PGT.Proofs.FuelEnough
open PGT PGT.Proofs.BuildErrors PGT.Proofs.RequestIndep

/-! ## 1. depth-bounded reachability -/

/-- every chain of message references that starts in `d` (a field with proto tag MESSAGE - map fields through their value
field - whose type name `req` resolves) ends after at most `n` messages -/
def depthOk : Nat → Request → MsgD → Bool
  | 0, _, _ => false
  | n + 1, req, d =>
    d.fields.all fun f =>
      !refTag f || match req.findMessage f.typeName with
                   | none => true
                   | some d' => depthOk n req d'

/-- the decidable acyclicity condition: no reference chain of the request is longer than the number of its messages -/
def Acyclic (req : Request) : Bool := (allMsgs req).all (depthOk (allMsgs req).length req)

theorem depthOk_field {n : Nat} {req : Request} {d : MsgD} (h : depthOk (n + 1) req d = true) {f : FieldD}
    (hf : f ∈ d.fields) (ht : refTag f = true) {d' : MsgD} (hfind : req.findMessage f.typeName = some d') :
    depthOk n req d' = true := by
  rw [depthOk, List.all_eq_true] at h
  have := h f hf
  simpa [ht, hfind] using this

/-! ## 2. stability: with `3 * depth` units of fuel, more fuel changes nothing -/

/-- the property of a field occurrence that the induction needs -/
def FieldOk (n : Nat) (req : Request) (f : FieldD) : Prop :=
  refTag f = true → ∀ d', req.findMessage f.typeName = some d' → depthOk n req d' = true

theorem fieldOk_value {n : Nat} {req : Request} {f : FieldD} (hf : FieldOk n req f) : FieldOk n req f.mapValueField := hf

theorem field_stable_nonmap (cfg : CfgView) (req : Request) (n : Nat)
    (ihM : ∀ d, depthOk n req d = true → ∀ F, 3 * n ≤ F → ∀ k isRoot path,
      buildMessage (F + k) cfg req d isRoot path = buildMessage F cfg req d isRoot path)
    (ctx : MsgCtx) (f : FieldD) (hf : FieldOk n req f) (keys : Keys) (goType : String) (isRep hasComment : Bool)
    (G : Nat) (h1 : 3 * n + 1 ≤ G) (k : Nat) :
    buildFieldCore (G + k) cfg req ctx f keys goType false isRep hasComment =
    buildFieldCore G cfg req ctx f keys goType false isRep hasComment := by
  obtain ⟨G', rfl⟩ : ∃ G', G = G' + 1 := ⟨G - 1, by omega⟩
  have hG' : 3 * n ≤ G' := by omega
  rw [show G' + 1 + k = (G' + k) + 1 by omega, buildFieldCore_succ, buildFieldCore_succ]
  refine coreStep_req_congr cfg req req ctx f keys goType false isRep hasComment _ _ _ _ (fun _ _ _ _ => rfl) ?_
    (fun h => by cases h)
  intro _ tf htf hm d hfind
  exact ihM d (hf (tf_isMessage_refTag cfg f isRep goType keys.path tf htf hm) d hfind) G' hG' k false keys.path

theorem field_stable (cfg : CfgView) (req : Request) (n : Nat)
    (ihM : ∀ d, depthOk n req d = true → ∀ F, 3 * n ≤ F → ∀ k isRoot path,
      buildMessage (F + k) cfg req d isRoot path = buildMessage F cfg req d isRoot path)
    (ctx : MsgCtx) (f : FieldD) (hf : FieldOk n req f) (keys : Keys) (goType : String) (isMap isRep hasComment : Bool)
    (G : Nat) (h2 : 3 * n + 2 ≤ G) (k : Nat) :
    buildFieldCore (G + k) cfg req ctx f keys goType isMap isRep hasComment =
    buildFieldCore G cfg req ctx f keys goType isMap isRep hasComment := by
  cases isMap with
  | false => exact field_stable_nonmap cfg req n ihM ctx f hf keys goType isRep hasComment G (by omega) k
  | true =>
    obtain ⟨G', rfl⟩ : ∃ G', G = G' + 1 := ⟨G - 1, by omega⟩
    rw [show G' + 1 + k = (G' + k) + 1 by omega, buildFieldCore_succ, buildFieldCore_succ]
    refine coreStep_req_congr cfg req req ctx f keys goType true isRep hasComment _ _ _ _ (fun h => by cases h)
      (fun h => by cases h) ?_
    intro _
    exact field_stable_nonmap cfg req n ihM ctx f.mapValueField (fieldOk_value hf) keys _ false false G' (by omega) k

/-- **Stability.** If every reference chain from `d` ends within `n` messages, `3 * n` units of fuel are enough: any
additional fuel gives the same result (IR or error). -/
theorem depth_stable (cfg : CfgView) (req : Request) : ∀ n d, depthOk n req d = true → ∀ F, 3 * n ≤ F → ∀ k isRoot path,
    buildMessage (F + k) cfg req d isRoot path = buildMessage F cfg req d isRoot path := by
  intro n
  induction n with
  | zero => intro d h; rw [depthOk] at h; cases h
  | succ n ih =>
    intro d h F hF k isRoot path
    obtain ⟨F', rfl⟩ : ∃ F', F = F' + 1 := ⟨F - 1, by omega⟩
    rw [show F' + 1 + k = (F' + k) + 1 by omega, buildMessage_succ, buildMessage_succ]
    congr 1
    congr 1
    apply List.map_congr_left
    intro f hf
    simp only [fieldCall]
    exact field_stable cfg req n ih _ f (fun ht d' hfind => depthOk_field h hf ht hfind) _ _ _ _ _ F' (by omega) k

/-! ## 3. the fuel bound is not reached -/

theorem getTerraformType_ne_rl (cfg : CfgView) (f : FieldD) (isMap isRep : Bool) (goType path : String) :
    getTerraformType cfg f isMap isRep goType path ≠ .error .recursionLimit := by
  intro h
  unfold getTerraformType at h
  split at h
  · cases h
  · simp only at h
    split at h
    · rename_i e he
      injection h with h
      subst h
      split at he
      · split at he <;> cases he
      · split at he
        · split at he <;> cases he
        · split at he
          · cases he
          · split at he <;> cases he
    · cases h

/-- `coreStep` reports the fuel bound only if one of its two recursive calls does -/
theorem coreStep_ne_rl (cfg : CfgView) (req : Request) (ctx : MsgCtx) (f : FieldD) (keys : Keys)
    (goType : String) (isMap isRep hasComment : Bool)
    (bm : MsgD → Except BuildError Msg) (bv : Except BuildError (List Field))
    (hbm : isMap = false → ∀ tf, getTerraformType cfg f isMap isRep goType keys.path = .ok tf → tf.isMessage = true →
        ∀ d, req.findMessage f.typeName = some d → bm d ≠ .error .recursionLimit)
    (hbv : isMap = true → bv ≠ .error .recursionLimit) :
    coreStep cfg req ctx f keys goType isMap isRep hasComment bm bv ≠ .error .recursionLimit := by
  intro h
  unfold coreStep at h
  cases hex : cfg.excluded keys with
  | true => simp [hex] at h
  | false =>
    cases htf : getTerraformType cfg f isMap isRep goType keys.path with
    | error e =>
      simp only [hex, htf] at h
      injection h with h
      subst h
      exact getTerraformType_ne_rl _ _ _ _ _ _ htf
    | ok tf =>
      cases isMap with
      | true =>
        by_cases hk : scalarGoType f.mapKey = "string"
        · cases hv : bv with
          | error e =>
            have : e = .recursionLimit := by simpa [hex, htf, hk, hv] using h
            subst this
            exact hbv rfl hv
          | ok l =>
            cases l with
            | nil => simp [hex, htf, hk, hv] at h
            | cons v vs => simp [hex, htf, hk, hv] at h
        · simp [hex, htf, hk] at h
      | false =>
        cases hm : tf.isMessage with
        | false => simp [hex, htf, hm] at h
        | true =>
          cases hf : req.findMessage f.typeName with
          | none => simp [hex, htf, hm, hf] at h
          | some d =>
            cases hb : bm d with
            | error e =>
              have : e = .recursionLimit := by simpa [hex, htf, hm, hf, hb] using h
              subst this
              exact hbm rfl tf htf hm d hf hb
            | ok m =>
              simp [hex, htf, hm, hf, hb] at h
              split at h
              · split at h <;> cases h
              · cases h

theorem field_ne_rl_nonmap (cfg : CfgView) (req : Request) (n : Nat)
    (ihM : ∀ d, depthOk n req d = true → ∀ F, 3 * n ≤ F → ∀ isRoot path,
      buildMessage F cfg req d isRoot path ≠ .error .recursionLimit)
    (ctx : MsgCtx) (f : FieldD) (hf : FieldOk n req f) (keys : Keys) (goType : String) (isRep hasComment : Bool)
    (G : Nat) (h1 : 3 * n + 1 ≤ G) :
    buildFieldCore G cfg req ctx f keys goType false isRep hasComment ≠ .error .recursionLimit := by
  obtain ⟨G', rfl⟩ : ∃ G', G = G' + 1 := ⟨G - 1, by omega⟩
  rw [buildFieldCore_succ]
  refine coreStep_ne_rl cfg req ctx f keys goType false isRep hasComment _ _ ?_ (fun h => by cases h)
  intro _ tf htf hm d hfind
  exact ihM d (hf (tf_isMessage_refTag cfg f isRep goType keys.path tf htf hm) d hfind) G' (by omega) false keys.path

theorem field_ne_rl (cfg : CfgView) (req : Request) (n : Nat)
    (ihM : ∀ d, depthOk n req d = true → ∀ F, 3 * n ≤ F → ∀ isRoot path,
      buildMessage F cfg req d isRoot path ≠ .error .recursionLimit)
    (ctx : MsgCtx) (f : FieldD) (hf : FieldOk n req f) (keys : Keys) (goType : String) (isMap isRep hasComment : Bool)
    (G : Nat) (h2 : 3 * n + 2 ≤ G) :
    buildFieldCore G cfg req ctx f keys goType isMap isRep hasComment ≠ .error .recursionLimit := by
  cases isMap with
  | false => exact field_ne_rl_nonmap cfg req n ihM ctx f hf keys goType isRep hasComment G (by omega)
  | true =>
    obtain ⟨G', rfl⟩ : ∃ G', G = G' + 1 := ⟨G - 1, by omega⟩
    rw [buildFieldCore_succ]
    refine coreStep_ne_rl cfg req ctx f keys goType true isRep hasComment _ _ (fun h => by cases h) ?_
    intro _
    exact field_ne_rl_nonmap cfg req n ihM ctx f.mapValueField (fieldOk_value hf) keys _ false false G' (by omega)

/-- **The fuel bound is not reached.** If every reference chain from `d` ends within `n` messages, a build with at least
`3 * n` units of fuel does not end in `recursionLimit`. -/
theorem depth_ne_rl (cfg : CfgView) (req : Request) : ∀ n d, depthOk n req d = true → ∀ F, 3 * n ≤ F → ∀ isRoot path,
    buildMessage F cfg req d isRoot path ≠ .error .recursionLimit := by
  intro n
  induction n with
  | zero => intro d h; rw [depthOk] at h; cases h
  | succ n ih =>
    intro d h F hF isRoot path hrl
    obtain ⟨F', rfl⟩ : ∃ F', F = F' + 1 := ⟨F - 1, by omega⟩
    rw [buildMessage_succ] at hrl
    have hmem := collect_error_inv _ _ (msgStep_error_inv _ _ _ _ _ _ hrl)
    obtain ⟨f, hf, hfe⟩ := List.mem_map.mp hmem
    exact field_ne_rl cfg req n ih _ f (fun ht d' hfind => depthOk_field h hf ht hfind) _ _ _ _ _ F' (by omega) hfe

/-! ## 4. acyclic requests: the default fuel is enough -/

theorem defaultFuel_eq (req : Request) : defaultFuel req = 3 * (allMsgs req).length + 4 := rfl

theorem acyclic_depthOk {req : Request} (h : Acyclic req = true) {d : MsgD} (hd : d ∈ allMsgs req) :
    depthOk (allMsgs req).length req d = true :=
  List.all_eq_true.mp h d hd

/-- **Fuel sufficiency.** On an acyclic request, the build of every message of the request gives the same result - IR or
error - with the default fuel and with any larger fuel: the fuel bound of the model is not visible. -/
theorem fuel_enough (cfg : CfgView) (req : Request) (hac : Acyclic req = true) (d : MsgD) (hd : d ∈ allMsgs req)
    (k : Nat) (isRoot : Bool) (path : String) :
    buildMessage (defaultFuel req + k) cfg req d isRoot path = buildMessage (defaultFuel req) cfg req d isRoot path :=
  depth_stable cfg req _ d (acyclic_depthOk hac hd) (defaultFuel req) (by rw [defaultFuel_eq]; omega) k isRoot path

/-- ... and that result is not the fuel bound -/
theorem fuel_bound_invisible (cfg : CfgView) (req : Request) (hac : Acyclic req = true) (d : MsgD) (hd : d ∈ allMsgs req)
    (k : Nat) (isRoot : Bool) (path : String) :
    buildMessage (defaultFuel req + k) cfg req d isRoot path ≠ .error .recursionLimit :=
  depth_ne_rl cfg req _ d (acyclic_depthOk hac hd) (defaultFuel req + k) (by rw [defaultFuel_eq]; omega) isRoot path

theorem buildRoot_ne_rl (cfg : Config) (req : Request) (hac : Acyclic req = true) (d : MsgD) (hd : d ∈ allMsgs req) :
    buildRoot cfg req d ≠ .error .recursionLimit := by
  intro h
  unfold buildRoot at h
  split at h
  · cases h
  · cases hb : buildMessage (defaultFuel req) (viewOf cfg) req d true "" with
    | ok m => rw [hb] at h; cases h
    | error e =>
      rw [hb] at h
      injection h with h
      subst h
      exact fuel_bound_invisible (viewOf cfg) req hac d hd 0 true "" hb

/-- a build error of a root of an acyclic request is witnessed by a failure chain (completeness of `FailsAt`, without the
fuel-bound alternative of `error_has_chain`) -/
theorem acyclic_error_has_chain (cfg : CfgView) (req : Request) (hac : Acyclic req = true) (d : MsgD) (hd : d ∈ allMsgs req)
    (isRoot : Bool) (path : String) (e : BuildError)
    (h : buildMessage (defaultFuel req) cfg req d isRoot path = .error e) : MsgFailsAt cfg req d isRoot path := by
  rcases (error_has_chain cfg req (defaultFuel req)).1 d isRoot path e h with hr | hc
  · subst hr; exact absurd h (fuel_bound_invisible cfg req hac d hd 0 isRoot path)
  · exact hc

/-! ## 5. a rank function is a certificate of acyclicity -/

/-- `rank` strictly decreases along every reference of a message of the request -/
def rankOk (rank : String → Nat) (req : Request) : Bool :=
  (allMsgs req).all fun d => d.fields.all fun f =>
    !refTag f || match req.findMessage f.typeName with
                 | none => true
                 | some d' => decide (rank d'.name < rank d.name)

theorem rank_depthOk (rank : String → Nat) (req : Request) (h : rankOk rank req = true) :
    ∀ r d, d ∈ allMsgs req → rank d.name < r → depthOk r req d = true := by
  intro r
  induction r with
  | zero => intro d _ hr; omega
  | succ r ih =>
    intro d hd hr
    rw [depthOk, List.all_eq_true]
    intro f hf
    have hdf := List.all_eq_true.mp (List.all_eq_true.mp h d hd) f hf
    cases ht : refTag f with
    | false => simp
    | true =>
      cases hfind : req.findMessage f.typeName with
      | none => simp
      | some d' =>
        simp only [ht, hfind, Bool.not_true, Bool.false_or, decide_eq_true_eq] at hdf
        simp only [Bool.not_true, Bool.false_or]
        exact ih d' (resolved_is_old req _ d' hfind).1 (by omega)

/-- a rank function with values below the number of messages proves the request acyclic -/
theorem acyclic_of_rank (rank : String → Nat) (req : Request) (h : rankOk rank req = true)
    (hb : ∀ d ∈ allMsgs req, rank d.name < (allMsgs req).length) : Acyclic req = true := by
  unfold Acyclic
  rw [List.all_eq_true]
  intro d hd
  exact rank_depthOk rank req h _ d hd (hb d hd)

/-! ## 6. extension of an acyclic request -/

/-- **Extension of an acyclic request.** Under no-clash, `buildRoot` of a message of the old request is unchanged by the
extension - same IR, same error, or "not selected" - unless the old result is an unknown-message error for one of the added
names (a dangling reference that the extension resolves). -/
theorem extend_buildRoot_acyclic (cfg : Config) (req : Request) (xs : List MsgD) (ds : List FileD)
    (hac : Acyclic req = true) (hc : noClash req xs ds = true) (desc : MsgD) (hd : desc ∈ allMsgs req) :
    buildRoot cfg (extend req xs ds) desc = buildRoot cfg req desc ∨
    ∃ x ∈ newNames xs ds, buildRoot cfg req desc = .error (.unknownMessage x) := by
  rcases extend_buildRoot cfg req xs ds hc desc with heq | hr | hx
  · exact Or.inl heq
  · exact absurd hr (buildRoot_ne_rl cfg req hac desc hd)
  · exact Or.inr hx

/-- every error of an old root other than a dangling reference to an added name is reported unchanged -/
theorem extend_buildRoot_error_acyclic (cfg : Config) (req : Request) (xs : List MsgD) (ds : List FileD)
    (hac : Acyclic req = true) (hc : noClash req xs ds = true) (desc : MsgD) (hd : desc ∈ allMsgs req) (e : BuildError)
    (h : buildRoot cfg req desc = .error e) (h2 : ∀ x ∈ newNames xs ds, e ≠ .unknownMessage x) :
    buildRoot cfg (extend req xs ds) desc = .error e :=
  extend_buildRoot_error cfg req xs ds hc desc e h
    (fun he => buildRoot_ne_rl cfg req hac desc hd (he ▸ h)) h2

/-- the statement `RequestIndep.extend_buildRoot_full`, which is false in general, holds for the messages of an acyclic
request: if no reachable name is the name of an added message, `buildRoot` is unchanged (no-clash is not needed) -/
theorem extend_buildRoot_unreferenced_acyclic (cfg : Config) (req : Request) (xs : List MsgD) (ds : List FileD)
    (hac : Acyclic req = true) (desc : MsgD) (hd : desc ∈ allMsgs req)
    (h : ∀ x ∈ msgNames (defaultFuel req) req desc, x ∉ newNames xs ds) :
    buildRoot cfg (extend req xs ds) desc = buildRoot cfg req desc := by
  rcases extend_buildRoot_unreferenced cfg req xs ds desc h with heq | hr
  · exact heq
  · exact absurd hr (buildRoot_ne_rl cfg req hac desc hd)

/-- decidable side condition: no message of `req` fails with a dangling reference to an added name -/
def noDangling (cfg : Config) (req : Request) (xs : List MsgD) (ds : List FileD) : Bool :=
  (allMsgs req).all fun d =>
    match buildRoot cfg req d with
    | .error e => (newNames xs ds).all (fun x => e != .unknownMessage x)
    | .ok _ => true

theorem rootsStable_of_acyclic {cfg : Config} {req : Request} {xs : List MsgD} {ds : List FileD}
    (hac : Acyclic req = true) (hn : noDangling cfg req xs ds = true) : rootsStable cfg req xs ds = true := by
  unfold rootsStable
  rw [List.all_eq_true]
  intro d hd
  have h1 := List.all_eq_true.mp hn d hd
  have h2 := buildRoot_ne_rl cfg req hac d hd
  cases hb : buildRoot cfg req d with
  | ok o => rfl
  | error e =>
    rw [hb] at h1 h2
    have : e ≠ .recursionLimit := fun he => h2 (by rw [he])
    simp only [Bool.and_eq_true, bne_iff_ne, ne_eq]
    exact ⟨this, h1⟩

/-- **C12, request part, acyclic request, extras not selected**: same roots, same IRs, same order, same failures -/
theorem buildRoots_extend_unselected_acyclic (cfg : Config) (req : Request) (xs : List MsgD) (ds : List FileD)
    (hac : Acyclic req = true) (hc : noClash req xs ds = true)
    (hsel : ∀ m ∈ newMsgs xs ds, cfg.types.contains m.name = false) (hn : noDangling cfg req xs ds = true) :
    buildRoots cfg (extend req xs ds) = buildRoots cfg req :=
  buildRoots_extend_unselected cfg req xs ds hc hsel (rootsStable_of_acyclic hac hn)

/-- **C12, request part, acyclic request, extras selected**: the roots with old names are the old roots -/
theorem buildRoots_extend_old_roots_acyclic (cfg : Config) (ts' : List String) (req : Request) (xs : List MsgD)
    (ds : List FileD) (hac : Acyclic req = true) (hc : noClash req xs ds = true)
    (hts : ∀ d ∈ allMsgs req, ts'.contains d.name = cfg.types.contains d.name)
    (hn : noDangling cfg req xs ds = true) :
    (buildRoots { cfg with types := ts' } (extend req xs ds)).1.filter (isOld req) = (buildRoots cfg req).1 :=
  buildRoots_extend_old_roots cfg ts' req xs ds hc hts (rootsStable_of_acyclic hac hn)

/-! ## 7. examples -/

namespace Example
open PGT.Proofs.RequestIndep.Example

example : Acyclic req0 = true := by decide
example : Acyclic reqD = true := by decide
/-- the self-referential request of `RequestIndep.Example` is (of course) not acyclic -/
example : Acyclic reqCyc = false := by decide
example : noDangling cfg0 req0 [msgExtra] [depOther] = true := by decide

/-- a rank certificate for `req0` -/
def rank0 (s : String) : Nat := if s == "A" then 1 else 0
example : rankOk rank0 req0 = true := by decide
example : ∀ d ∈ allMsgs req0, rank0 d.name < (allMsgs req0).length := by decide

theorem roots_unchanged' : buildRoots cfg0 (extend req0 [msgExtra] [depOther]) = buildRoots cfg0 req0 :=
  buildRoots_extend_unselected_acyclic cfg0 req0 [msgExtra] [depOther] (by decide) (by decide) (by decide) (by decide)

/-- the chain through maps that exceeded the former default fuel `2 * n + 4`: six messages, each a map of the next -/
def mapTo (n : String) : FieldD := { name := "m", type := "message", typeName := n, card := .map }
def chain : List MsgD :=
  [{ name := "M1", fields := [mapTo "M2"] }, { name := "M2", fields := [mapTo "M3"] }, { name := "M3", fields := [mapTo "M4"] },
   { name := "M4", fields := [mapTo "M5"] }, { name := "M5", fields := [mapTo "M6"] },
   { name := "M6", fields := [{ name := "s", type := "string" }] }]
def reqChain : Request := { file := { name := "c.proto", package := "c", messages := chain } }
def cfgChain : Config := { types := ["M1"] }
def msgM1 : MsgD := { name := "M1", fields := [mapTo "M2"] }

example : Acyclic reqChain = true := by decide
example : msgM1 ∈ allMsgs reqChain := by decide
/-- it builds with the default fuel -/
theorem chain_builds : isOkSome (buildRoot cfgChain reqChain msgM1) = true := by decide
/-- the cost analysis is tight up to the constant: 17 units are needed (3 per map level, 2 for the last message) -/
example : (match buildMessage 16 (viewOf cfgChain) reqChain msgM1 true "" with
    | .error .recursionLimit => true | _ => false) = true := by decide
example : (match buildMessage 17 (viewOf cfgChain) reqChain msgM1 true "" with
    | .ok _ => true | _ => false) = true := by decide

end Example

end PGT.Proofs.FuelEnough

section Axioms
open PGT.Proofs.FuelEnough
#print axioms depth_stable
#print axioms depth_ne_rl
#print axioms fuel_enough
#print axioms fuel_bound_invisible
#print axioms buildRoot_ne_rl
#print axioms acyclic_error_has_chain
#print axioms acyclic_of_rank
#print axioms extend_buildRoot_acyclic
#print axioms extend_buildRoot_error_acyclic
#print axioms extend_buildRoot_unreferenced_acyclic
#print axioms buildRoots_extend_unselected_acyclic
#print axioms buildRoots_extend_old_roots_acyclic
#print axioms Example.roots_unchanged'
#print axioms Example.chain_builds
end Axioms
