import PGT.Proofs.PackageIndep
/-
C13 – the side condition `SideOK` of `PackageIndep.C13_behaves_same` holds for EVERY sane descriptor
(`PackageIndep.SideOK_sane_full`, left open there), hence `C13_behaves_same_full`.

String-level reasoning about the Go type strings of the model:
 1. index lemmas for `(List.range n).filter P |>.getLast?` (`lastModIndex`, `lastIndexOfChar`);
 2. `typAndMod (mods ++ base) = (base, mods)` and `prepend_shape`:
    `prependPackageNameIfMissing o (mods ++ base) p = mods ++ qual o p base`, where `qual` leaves builtin / dotted
    names (and everything when `p = ""`) alone and otherwise prefixes `qualifierOf (override of p) ++ "."`;
 3. `tyRel_core`: for the prefixes `""`, `*`, `[]`, `[]*` qualification preserves star-ness and `normCast ∘ elemOf`
    (this is where `qualifier ≠ "time"` is used: `rep_none_qual`);
 4. `Shape`: the type strings are `mods ++ base` (with `[]byte` read as `[]` + `byte`); consequences
    `shape_tyRel`, `shape_embed`, `shape_map` = the three clauses of `FieldOK`;
 5. `gogoGoType`, `gogoMapGoType`, `goTypeOf` of a sane descriptor have these shapes (`gogoCamelCase` keeps identifiers);
 6. `sideOK_sane : SideOK_sane_full` and `C13_behaves_same_sane : C13_behaves_same_full`.
`descSane` / `pkgLike` are used exactly as defined in PackageIndep.lean (nothing was strengthened).
-/
namespace PGT.PackageSideOK
open PGT PGT.PackageIndep

theorem getLast_filter_range_some (P : Nat → Bool) (i : Nat) (hP : P i = true) :
    ∀ n, i < n → (∀ j, i < j → j < n → P j = false) → ((List.range n).filter P).getLast? = some i
  | 0, h, _ => by omega
  | n + 1, h, hgt => by
    rw [List.range_succ, List.filter_append, List.getLast?_append]
    by_cases hn : i = n
    · subst hn
      simp [hP]
    · have hlt : i < n := by omega
      have hPn : P n = false := hgt n hlt (by omega)
      have ih := getLast_filter_range_some P i hP n hlt (fun j h1 h2 => hgt j h1 (by omega))
      simp [hPn, ih]

theorem getLast_filter_range_none (P : Nat → Bool) :
    ∀ n, (∀ j, j < n → P j = false) → ((List.range n).filter P).getLast? = none
  | 0, _ => by simp
  | n + 1, h => by
    rw [List.range_succ, List.filter_append, List.getLast?_append]
    have ih := getLast_filter_range_none P n (fun j hj => h j (by omega))
    simp [h n (by omega), ih]

def isModC (c : Char) : Bool := c == '[' || c == ']' || c == '*'

theorem lastModIndex_split (a : List Char) (c : Char) (b : List Char) (hc : isModC c = true)
    (hb : ∀ x ∈ b, isModC x = false) : lastModIndex (a ++ c :: b) = some a.length := by
  unfold lastModIndex
  apply getLast_filter_range_some
  · simp only [List.getElem?_append_right (Nat.le_refl _), Nat.sub_self, List.getElem?_cons_zero]
    exact hc
  · simp
  · intro j h1 h2
    have : (a ++ c :: b)[j]? = b[j - a.length - 1]? := by
      obtain ⟨k, rfl⟩ : ∃ k, j = a.length + (k + 1) := ⟨j - a.length - 1, by omega⟩
      rw [List.getElem?_append_right (by omega)]
      have : a.length + (k + 1) - a.length = k + 1 := by omega
      rw [this, List.getElem?_cons_succ]
      congr 1 <;> omega
    simp only [this]
    cases hx : b[j - a.length - 1]? with
    | none => rfl
    | some x => exact hb x (List.mem_of_getElem? hx)

theorem lastModIndex_none (s : List Char) (hs : ∀ x ∈ s, isModC x = false) : lastModIndex s = none := by
  unfold lastModIndex
  apply getLast_filter_range_none
  intro j hj
  cases hx : s[j]? with
  | none => rfl
  | some x => exact hs x (List.mem_of_getElem? hx)

theorem lastIndexOfChar_split (ch : Char) (a b : List Char) (hb : ch ∉ b) :
    lastIndexOfChar ch (a ++ ch :: b) = some a.length := by
  unfold lastIndexOfChar
  apply getLast_filter_range_some
  · simp
  · simp
  · intro j h1 h2
    have : (a ++ ch :: b)[j]? = b[j - a.length - 1]? := by
      obtain ⟨k, rfl⟩ : ∃ k, j = a.length + (k + 1) := ⟨j - a.length - 1, by omega⟩
      rw [List.getElem?_append_right (by omega)]
      have : a.length + (k + 1) - a.length = k + 1 := by omega
      rw [this, List.getElem?_cons_succ]
      congr 1 <;> omega
    simp only [this]
    cases hx : b[j - a.length - 1]? with
    | none => simp
    | some x =>
      have : x ≠ ch := fun e => hb (e ▸ List.mem_of_getElem? hx)
      simp [this]

theorem lastIndexOfChar_none (ch : Char) (s : List Char) (hs : ch ∉ s) : lastIndexOfChar ch s = none := by
  unfold lastIndexOfChar
  apply getLast_filter_range_none
  intro j hj
  cases hx : s[j]? with
  | none => simp
  | some x =>
    have : x ≠ ch := fun e => hs (e ▸ List.mem_of_getElem? hx)
    simp [this]


/-! ## 2. `typAndMod`, `typBeforeBracket`, `appendQual`, `prependPackageNameIfMissing` on `mods ++ base` -/

/-- characters a base type name may consist of: no modifier character, no `(` -/
def okC (c : Char) : Bool := c != '[' && c != ']' && c != '*' && c != '('

/-- the modifier prefix is empty or ends with a modifier character -/
def ModEnd (m : List Char) : Prop := m = [] ∨ ∃ a c, m = a ++ [c] ∧ isModC c = true

theorem okC_not_mod {x : Char} (h : okC x = true) : isModC x = false := by
  simp only [okC, Bool.and_eq_true, bne_iff_ne, ne_eq] at h
  simp [isModC, h.1.1.1, h.1.1.2, h.1.2]

theorem all_okC_not_mod {b : List Char} (hb : b.all okC = true) : ∀ x ∈ b, isModC x = false := by
  intro x hx
  exact okC_not_mod (List.all_eq_true.mp hb x hx)

theorem take_split {α} (c : α) (b : List α) : ∀ a : List α, (a ++ c :: b).take (a.length + 1) = a ++ [c]
  | [] => by simp
  | x :: a => by simp [take_split c b a]

theorem drop_split {α} (c : α) (b : List α) : ∀ a : List α, (a ++ c :: b).drop (a.length + 1) = b
  | [] => by simp
  | x :: a => by simp [ drop_split c b a]

theorem takeWhile_all {α} (p : α → Bool) : ∀ l : List α, (∀ x ∈ l, p x = true) → l.takeWhile p = l
  | [], _ => rfl
  | x :: l, h => by
    simp [h x List.mem_cons_self, takeWhile_all p l (fun y hy => h y (List.mem_cons_of_mem _ hy))]

theorem typAndMod_shape (m b : List Char) (hm : ModEnd m) (hb : b.all okC = true) :
    typAndMod (String.ofList (m ++ b)) = (String.ofList b, String.ofList m) := by
  unfold typAndMod
  rcases hm with rfl | ⟨a, c, rfl, hc⟩
  · simp only [List.nil_append, String.toList_ofList, lastModIndex_none b (all_okC_not_mod hb)]
  · have e : a ++ [c] ++ b = a ++ c :: b := by simp
    simp only [String.toList_ofList, e, lastModIndex_split a c b hc (all_okC_not_mod hb), take_split, drop_split]

theorem typBeforeBracket_ok (b : List Char) (hb : b.all okC = true) :
    typBeforeBracket (String.ofList b) = String.ofList b := by
  unfold typBeforeBracket
  congr 1
  simp only [String.toList_ofList]
  apply takeWhile_all
  intro x hx
  have := List.all_eq_true.mp hb x hx
  simp only [okC, Bool.and_eq_true, bne_iff_ne, ne_eq] at this
  simp [this.2]


theorem take_len {α} (b : List α) : ∀ a : List α, (a ++ b).take a.length = a
  | [] => by simp
  | x :: a => by simp

/-- the import qualifier of the default package -/
def qualQ (o : List (String × String)) (p : String) : String := qualifierOf ((o.lookup p).getD p)

/-- what `PrependPackageNameIfMissing` does to the base name -/
def qual (o : List (String × String)) (p : String) (b : List Char) : List Char :=
  if p == "" || isBuiltinType (String.ofList b) || b.contains '.' then b else (qualQ o p).toList ++ '.' :: b

theorem pkgLike_okC {p : String} (hp : pkgLike p = true) : p.toList.all okC = true := by
  unfold pkgLike at hp
  rw [List.all_eq_true] at hp ⊢
  intro x hx
  have h := hp x hx
  by_cases hk : okC x = true
  · exact hk
  · exfalso
    simp only [okC, Bool.and_eq_true, bne_iff_ne, ne_eq, not_and, Decidable.not_not] at hk
    by_cases h1 : x = '['
    · subst h1; revert h; decide
    · by_cases h2 : x = ']'
      · subst h2; revert h; decide
      · by_cases h3 : x = '*'
        · subst h3; revert h; decide
        · have := hk ⟨⟨h1, h2⟩, h3⟩
          subst this; revert h; decide

theorem str_dot (p : String) (b : List Char) : p ++ "." ++ String.ofList b = String.ofList (p.toList ++ '.' :: b) := by
  apply String.ext_iff.mpr
  simp

theorem prepend_shape (o : List (String × String)) (m b : List Char) (p : String) (hm : ModEnd m)
    (hb : b.all okC = true) (hp : pkgLike p = true) :
    prependPackageNameIfMissing o (String.ofList (m ++ b)) p = String.ofList (m ++ qual o p b) := by
  unfold prependPackageNameIfMissing
  rw [typAndMod_shape m b hm hb]
  simp only [typBeforeBracket_ok b hb, String.toList_ofList]
  unfold qual
  by_cases hc : (p == "" || isBuiltinType (String.ofList b) || b.contains '.') = true
  · have hc' : (b.contains '.' || p == "" || isBuiltinType (String.ofList b)) = true := by
      revert hc; cases b.contains '.' <;> cases p == "" <;> cases isBuiltinType (String.ofList b) <;> decide
    rw [if_pos hc', if_pos hc]
  · have hc' : ¬ (b.contains '.' || p == "" || isBuiltinType (String.ofList b)) = true := by
      revert hc; cases b.contains '.' <;> cases p == "" <;> cases isBuiltinType (String.ofList b) <;> decide
    rw [if_neg hc', if_neg hc]
    have hdot : '.' ∉ b := by
      intro hmem
      apply hc
      have : b.contains '.' = true := by simpa using hmem
      rw [this]; simp
    unfold appendQual
    rw [str_dot]
    have hall : (p.toList ++ '.' :: b).all okC = true := by
      simp only [List.all_append, List.all_cons, pkgLike_okC hp, hb, Bool.and_true, Bool.true_and]
      decide
    rw [typBeforeBracket_ok _ hall]
    simp only [String.toList_ofList, lastIndexOfChar_split '.' p.toList b hdot]
    rw [take_len, drop_split]
    apply String.ext_iff.mpr
    simp [qualQ]


/-! ## 3. `TyRel` for the shapes -/

/-- characters of identifiers: additionally no `.` -/
def goodC (c : Char) : Bool := okC c && c != '.'

theorem identC_good {c : Char} (h : (c.isAlphanum || c == '_') = true) : goodC c = true := by
  by_cases hk : goodC c = true
  · exact hk
  · exfalso
    simp only [goodC, okC, Bool.and_eq_true, bne_iff_ne, ne_eq, not_and, Decidable.not_not] at hk
    by_cases h1 : c = '['
    · subst h1; revert h; decide
    · by_cases h2 : c = ']'
      · subst h2; revert h; decide
      · by_cases h3 : c = '*'
        · subst h3; revert h; decide
        · by_cases h4 : c = '('
          · subst h4; revert h; decide
          · have := hk ⟨⟨⟨h1, h2⟩, h3⟩, h4⟩
            subst this; revert h; decide

theorem goodC_okC {c : Char} (h : goodC c = true) : okC c = true := by
  simp only [goodC, Bool.and_eq_true] at h; exact h.1

theorem goodC_ne_dot {c : Char} (h : goodC c = true) : c ≠ '.' := by
  simp only [goodC, Bool.and_eq_true, bne_iff_ne, ne_eq] at h; exact h.2

theorem all_good_okC {l : List Char} (h : l.all goodC = true) : l.all okC = true := by
  rw [List.all_eq_true] at h ⊢
  exact fun x hx => goodC_okC (h x hx)

theorem all_good_nodot {l : List Char} (h : l.all goodC = true) : '.' ∉ l := by
  rw [List.all_eq_true] at h
  exact fun hx => goodC_ne_dot (h _ hx) rfl

theorem identLike_good {s : String} (h : identLike s = true) : s.toList.all goodC = true := by
  unfold identLike at h
  rw [List.all_eq_true] at h ⊢
  exact fun x hx => identC_good (h x hx)

theorem qualQ_good (o : List (String × String)) (p : String) : (qualQ o p).toList.all goodC = true := by
  unfold qualQ qualifierOf
  rw [String.toList_ofList, List.all_eq_true]
  intro x hx
  obtain ⟨c, _, rfl⟩ := List.mem_map.mp hx
  unfold badToUnderscore
  split
  · next h => exact identC_good h
  · decide

theorem okC_ne_star {c : Char} (h : okC c = true) : c ≠ '*' := by
  simp only [okC, Bool.and_eq_true, bne_iff_ne, ne_eq] at h; exact h.1.2

theorem okC_ne_lb {c : Char} (h : okC c = true) : c ≠ '[' := by
  simp only [okC, Bool.and_eq_true, bne_iff_ne, ne_eq] at h; exact h.1.1.1

theorem qual_okC (o : List (String × String)) (p : String) (b : List Char) (hb : b.all okC = true) :
    (qual o p b).all okC = true := by
  unfold qual
  split
  · exact hb
  · simp only [List.all_append, List.all_cons, all_good_okC (qualQ_good o p), hb, Bool.and_true, Bool.true_and]
    decide

theorem qual_idem (o : List (String × String)) (p : String) (b : List Char) : qual o p (qual o p b) = qual o p b := by
  by_cases hc : (p == "" || isBuiltinType (String.ofList b) || b.contains '.') = true
  · have e : qual o p b = b := by unfold qual; rw [if_pos hc]
    rw [e, e]
  · have e : qual o p b = (qualQ o p).toList ++ '.' :: b := by unfold qual; rw [if_neg hc]
    rw [e]
    unfold qual
    rw [if_pos]
    have : ((qualQ o p).toList ++ '.' :: b).contains '.' = true := by simp
    rw [this]; simp

theorem contains_star_qual (o : List (String × String)) (p : String) (m b : List Char) :
    (m ++ qual o p b).contains '*' = (m ++ b).contains '*' := by
  unfold qual
  split
  · rfl
  · have hq : (qualQ o p).toList.contains '*' = false := by
      rw [Bool.eq_false_iff]
      intro h
      have hm : '*' ∈ (qualQ o p).toList := by simpa using h
      exact okC_ne_star (List.all_eq_true.mp (all_good_okC (qualQ_good o p)) _ hm) rfl
    rw [Bool.eq_iff_iff]
    simp only [List.contains_iff_mem, List.mem_append, List.mem_cons]
    have hq' : '*' ∉ (qualQ o p).toList := by
      intro hm; exact okC_ne_star (List.all_eq_true.mp (all_good_okC (qualQ_good o p)) _ hm) rfl
    constructor
    · rintro (h | h | h | h)
      · exact Or.inl h
      · exact absurd h hq'
      · exact absurd h (by decide)
      · exact Or.inr h
    · rintro (h | h)
      · exact Or.inl h
      · exact Or.inr (Or.inr (Or.inr h))

theorem removeBrackets_noBr : ∀ X : List Char, (∀ x ∈ X, x ≠ '[') → removeBrackets X = X
  | [], _ => rfl
  | c :: X, h => by
    have hc : c ≠ '[' := h c List.mem_cons_self
    have ih := removeBrackets_noBr X (fun x hx => h x (List.mem_cons_of_mem _ hx))
    unfold removeBrackets
    split
    · next heq => cases heq; exact absurd rfl hc
    · next heq => cases heq; rw [ih]
    · next heq => cases heq


def tHeadStar (s : String) : Bool := s.toList.head? == some '*'
def tNotBuiltin (s : String) : Bool := !isBuiltinType s
def tNoLB (s : String) : Bool := !s.toList.contains '['
def tNoDot (s : String) : Bool := !s.toList.contains '.'
def tDot (s : String) : Bool := s.toList.contains '.'

theorem ne_of_test (f : String → Bool) {s l : String} (hs : f s = true) (hl : f l = false) : s ≠ l := by
  intro e; rw [e, hl] at hs; cases hs

theorem repOfGoType_none (s : String) (h1 : s ≠ "bool") (h2 : s ≠ "string") (h3 : s ≠ "[]byte") (h4 : s ≠ "int32")
    (h5 : s ≠ "uint32") (h6 : s ≠ "int64") (h7 : s ≠ "uint64") (h8 : s ≠ "float32") (h9 : s ≠ "float64")
    (h10 : s ≠ "time.Time") (h11 : s ≠ "time.Duration") : repOfGoType s = none := by
  unfold repOfGoType
  simp [h1, h2, h3, h4, h5, h6, h7, h8, h9, h10, h11]

theorem rep_none_star (X : List Char) : repOfGoType (String.ofList ('*' :: X)) = none := by
  have t : tHeadStar (String.ofList ('*' :: X)) = true := by simp [tHeadStar]
  apply repOfGoType_none <;> exact ne_of_test tHeadStar t (by decide)

theorem rep_none_base (b : List Char) (hb : b.all okC = true) (hd : '.' ∉ b)
    (hn : isBuiltinType (String.ofList b) = false) : repOfGoType (String.ofList b) = none := by
  have t1 : tNotBuiltin (String.ofList b) = true := by simp [tNotBuiltin, hn]
  have t2 : tNoLB (String.ofList b) = true := by
    simp only [tNoLB, String.toList_ofList, Bool.not_eq_true', ← Bool.not_eq_true, List.contains_iff_mem]
    exact fun h => okC_ne_lb (List.all_eq_true.mp hb _ h) rfl
  have t3 : tNoDot (String.ofList b) = true := by
    simp only [tNoDot, String.toList_ofList, Bool.not_eq_true', ← Bool.not_eq_true, List.contains_iff_mem]
    exact hd
  apply repOfGoType_none
  · exact ne_of_test tNotBuiltin t1 (by decide)
  · exact ne_of_test tNotBuiltin t1 (by decide)
  · exact ne_of_test tNoLB t2 (by decide)
  · exact ne_of_test tNotBuiltin t1 (by decide)
  · exact ne_of_test tNotBuiltin t1 (by decide)
  · exact ne_of_test tNotBuiltin t1 (by decide)
  · exact ne_of_test tNotBuiltin t1 (by decide)
  · exact ne_of_test tNotBuiltin t1 (by decide)
  · exact ne_of_test tNotBuiltin t1 (by decide)
  · exact ne_of_test tNoDot t3 (by decide)
  · exact ne_of_test tNoDot t3 (by decide)

theorem split_unique {α} (c : α) (b b' : List α) : ∀ a a' : List α, c ∉ a → c ∉ a' → a ++ c :: b = a' ++ c :: b' → a = a'
  | [], [], _, _, _ => rfl
  | [], y :: a', _, h', e => by
    simp only [List.nil_append, List.cons_append, List.cons.injEq] at e
    exact absurd (e.1 ▸ List.mem_cons_self) h'
  | x :: a, [], h, _, e => by
    simp only [List.nil_append, List.cons_append, List.cons.injEq] at e
    exact absurd (e.1 ▸ List.mem_cons_self) h
  | x :: a, y :: a', h, h', e => by
    simp only [List.cons_append, List.cons.injEq] at e
    rw [e.1, split_unique c b b' a a' (fun hm => h (List.mem_cons_of_mem _ hm)) (fun hm => h' (List.mem_cons_of_mem _ hm)) e.2]

theorem rep_none_qual (q b : List Char) (hq : '.' ∉ q) (hqt : String.ofList q ≠ "time") :
    repOfGoType (String.ofList (q ++ '.' :: b)) = none := by
  have t : tDot (String.ofList (q ++ '.' :: b)) = true := by simp [tDot]
  have key : ∀ (x y : String), '.' ∉ x.toList → x = "time" → String.ofList (q ++ '.' :: b) ≠ x ++ "." ++ y := by
    intro x y hx hxt e
    have e' := congrArg String.toList e
    simp only [String.toList_ofList, String.toList_append] at e'
    have : (".": String).toList = ['.'] := by decide
    rw [this, List.append_assoc, List.singleton_append] at e'
    have := split_unique '.' b y.toList q x.toList hq hx e'
    apply hqt
    rw [this, hxt]
    simp
  apply repOfGoType_none
  · exact ne_of_test tDot t (by decide)
  · exact ne_of_test tDot t (by decide)
  · exact ne_of_test tDot t (by decide)
  · exact ne_of_test tDot t (by decide)
  · exact ne_of_test tDot t (by decide)
  · exact ne_of_test tDot t (by decide)
  · exact ne_of_test tDot t (by decide)
  · exact ne_of_test tDot t (by decide)
  · exact ne_of_test tDot t (by decide)
  · exact key "time" "Time" (by decide) rfl
  · exact key "time" "Duration" (by decide) rfl

theorem normCast_none {s : String} (h : repOfGoType s = none) : normCast s = "" := by
  unfold normCast; rw [h]; rfl

theorem rb_cons_ne (c : Char) (X : List Char) (h : c ≠ '[') : removeBrackets (c :: X) = c :: removeBrackets X := by
  rw [removeBrackets]
  intro rest h1 _
  exact h h1

theorem rb_brackets (X : List Char) : removeBrackets ('[' :: ']' :: X) = removeBrackets X := by
  rw [removeBrackets]

/-- the four modifier prefixes of a non-map field's Go type -/
def Mods2 (m : List Char) : Prop := m = [] ∨ m = ['*'] ∨ m = ['[', ']'] ∨ m = ['[', ']', '*']
def Mods1 (m : List Char) : Prop := m = [] ∨ m = ['*']

theorem Mods1.mods2 {m : List Char} (h : Mods1 m) : Mods2 m := by
  rcases h with h | h
  · exact Or.inl h
  · exact Or.inr (Or.inl h)

theorem Mods2.modEnd {m : List Char} (h : Mods2 m) : ModEnd m := by
  rcases h with rfl | rfl | rfl | rfl
  · exact Or.inl rfl
  · exact Or.inr ⟨[], '*', rfl, by decide⟩
  · exact Or.inr ⟨['['], ']', rfl, by decide⟩
  · exact Or.inr ⟨['[', ']'], '*', rfl, by decide⟩

theorem tyRel_core (o : List (String × String)) (p : String) (m b : List Char) (hm : Mods2 m)
    (hb : b.all okC = true) (hq : qualQ o p ≠ "time") :
    TyRel (String.ofList (m ++ qual o p b)) (String.ofList (m ++ b)) := by
  refine ⟨by simp only [String.toList_ofList, contains_star_qual], ?_⟩
  by_cases hc : (p == "" || isBuiltinType (String.ofList b) || b.contains '.') = true
  · have e : qual o p b = b := by unfold qual; rw [if_pos hc]
    rw [e]
  · have e : qual o p b = (qualQ o p).toList ++ '.' :: b := by unfold qual; rw [if_neg hc]
    have hd : '.' ∉ b := by
      intro hmem; apply hc
      have : b.contains '.' = true := by simpa using hmem
      rw [this]; simp
    have hn : isBuiltinType (String.ofList b) = false := by
      cases hh : isBuiltinType (String.ofList b) with
      | false => rfl
      | true => exfalso; apply hc; rw [hh]; simp
    have r1 := rep_none_base b hb hd hn
    have r2 := rep_none_qual (qualQ o p).toList b (all_good_nodot (qualQ_good o p)) (by simpa using hq)
    have hX : ∀ x ∈ qual o p b, x ≠ '[' := fun x hx => okC_ne_lb (List.all_eq_true.mp (qual_okC o p b hb) x hx)
    have hB : ∀ x ∈ b, x ≠ '[' := fun x hx => okC_ne_lb (List.all_eq_true.mp hb x hx)
    rw [← e] at r2
    have rX := removeBrackets_noBr _ hX
    have rB := removeBrackets_noBr _ hB
    have hs : '*' ≠ '[' := by decide
    unfold elemOf
    simp only [String.toList_ofList]
    rcases hm with rfl | rfl | rfl | rfl
    · simp only [List.nil_append, rX, rB, normCast_none r1, normCast_none r2]
    · simp only [List.cons_append, List.nil_append, rb_cons_ne _ _ hs, rX, rB, normCast_none (rep_none_star _)]
    · simp only [List.cons_append, List.nil_append, rb_brackets, rX, rB, normCast_none r1, normCast_none r2]
    · simp only [List.cons_append, List.nil_append, rb_brackets, rb_cons_ne _ _ hs, rX, rB,
        normCast_none (rep_none_star _)]


/-! ## 4. Shapes of Go type strings and what follows from them -/

def byteL : List Char := ['b', 'y', 't', 'e']

/-- `s = mods ++ base`: `base` has no modifier character / `(`, `mods` is one of the prefixes `M`, or such a prefix
followed by `[]` when the base is `byte` (`[]byte`) -/
def Shape (M : List Char → Prop) (s : String) : Prop :=
  ∃ m b, s.toList = m ++ b ∧ b.all okC = true ∧ (M m ∨ ((∃ m0, M m0 ∧ m = m0 ++ ['[', ']']) ∧ b = byteL))

theorem Shape.mono {M M' : List Char → Prop} (h : ∀ m, M m → M' m) {s : String} (hs : Shape M s) : Shape M' s := by
  obtain ⟨m, b, e, hb, hm⟩ := hs
  refine ⟨m, b, e, hb, ?_⟩
  rcases hm with hm | ⟨⟨m0, h0, e0⟩, hb0⟩
  · exact Or.inl (h m hm)
  · exact Or.inr ⟨⟨m0, h m0 h0, e0⟩, hb0⟩

theorem eq_ofList {s : String} {l : List Char} (h : s.toList = l) : s = String.ofList l := by
  rw [← h]; simp

theorem qual_byte (o : List (String × String)) (p : String) : qual o p byteL = byteL := by
  unfold qual
  have : isBuiltinType (String.ofList byteL) = true := by decide
  rw [this]; simp

theorem modEnd_snoc_br (m0 : List Char) : ModEnd (m0 ++ ['[', ']']) :=
  Or.inr ⟨m0 ++ ['['], ']', by simp, by decide⟩

/-- (T) -/
theorem shape_tyRel (o : List (String × String)) (p s : String) (hs : Shape Mods2 s) (hp : pkgLike p = true)
    (hq : qualQ o p ≠ "time") : TyRel (prependPackageNameIfMissing o s p) s := by
  obtain ⟨m, b, e, hb, hm⟩ := hs
  rw [eq_ofList e]
  rcases hm with hm | ⟨⟨m0, _, rfl⟩, rfl⟩
  · rw [prepend_shape o m b p hm.modEnd hb hp]
    exact tyRel_core o p m b hm hb hq
  · rw [prepend_shape o _ byteL p (modEnd_snoc_br m0) hb hp, qual_byte]
    exact TyRel.refl _

theorem dropStar_ok (X : List Char) (h : ∀ x ∈ X, x ≠ '*') : dropStar X = X := by
  unfold dropStar
  split
  · next heq => exact absurd rfl (h '*' (by simp))
  · rfl

theorem embedFull_mods1 (m X : List Char) (hm : Mods1 m) (hX : ∀ x ∈ X, x ≠ '*') :
    embedFull (String.ofList (m ++ X)) = String.ofList X := by
  unfold embedFull
  congr 1
  rcases hm with rfl | rfl
  · simp only [String.toList_ofList, List.nil_append]
    exact dropStar_ok X hX
  · simp [dropStar]

theorem embedShort_dotted (m q b : List Char) (hm : Mods1 m) (hX : ∀ x ∈ q ++ '.' :: b, x ≠ '*') (hd : '.' ∉ b) :
    embedShort (String.ofList (m ++ (q ++ '.' :: b))) = String.ofList b := by
  unfold embedShort
  rw [embedFull_mods1 m _ hm hX]
  simp only [String.toList_ofList, lastIndexOfChar_split '.' q b hd, drop_split]

theorem embedShort_plain (m b : List Char) (hm : Mods1 m) (hX : ∀ x ∈ b, x ≠ '*') (hd : '.' ∉ b) :
    embedShort (String.ofList (m ++ b)) = String.ofList b := by
  unfold embedShort
  rw [embedFull_mods1 m _ hm hX]
  simp only [String.toList_ofList, lastIndexOfChar_none '.' b hd]

theorem all_okC_ne_star {X : List Char} (h : X.all okC = true) : ∀ x ∈ X, x ≠ '*' :=
  fun x hx => okC_ne_star (List.all_eq_true.mp h x hx)

/-- (E) -/
theorem shape_embed (o : List (String × String)) (p s : String) (hs : Shape Mods1 s) (hp : pkgLike p = true) :
    embedShort (prependPackageNameIfMissing o s p) = embedShort s := by
  obtain ⟨m, b, e, hb, hm⟩ := hs
  rw [eq_ofList e]
  rcases hm with hm | ⟨⟨m0, _, rfl⟩, rfl⟩
  · rw [prepend_shape o m b p hm.mods2.modEnd hb hp]
    by_cases hc : (p == "" || isBuiltinType (String.ofList b) || b.contains '.') = true
    · have e : qual o p b = b := by unfold qual; rw [if_pos hc]
      rw [e]
    · have e : qual o p b = (qualQ o p).toList ++ '.' :: b := by unfold qual; rw [if_neg hc]
      have hd : '.' ∉ b := by
        intro hmem; apply hc
        have : b.contains '.' = true := by simpa using hmem
        rw [this]; simp
      have hX := all_okC_ne_star (qual_okC o p b hb)
      rw [e] at hX ⊢
      rw [embedShort_dotted m _ b hm hX hd, embedShort_plain m b hm (all_okC_ne_star hb) hd]
  · rw [prepend_shape o _ byteL p (modEnd_snoc_br m0) hb hp, qual_byte]

theorem afterLastBracket_split (A Y : List Char) (hY : ']' ∉ Y) :
    afterLastBracket (String.ofList (A ++ ']' :: Y)) = String.ofList Y := by
  unfold afterLastBracket
  simp only [String.toList_ofList, lastIndexOfChar_split ']' A Y hY, drop_split]

theorem okC_ne_rb {c : Char} (h : okC c = true) : c ≠ ']' := by
  simp only [okC, Bool.and_eq_true, bne_iff_ne, ne_eq] at h; exact h.1.1.2

/-- the characters of `map[K]` -/
def mapPre (K : String) : List Char := 'm' :: 'a' :: 'p' :: '[' :: (K.toList ++ [']'])

theorem mapPre_toList (K s : String) : ("map[" ++ K ++ "]" ++ s).toList = mapPre K ++ s.toList := by
  have h1 : ("map[" : String).toList = ['m', 'a', 'p', '['] := by decide
  have h2 : ("]" : String).toList = [']'] := by decide
  simp only [String.toList_append, h1, h2, mapPre]
  simp

/-- the value type after `map[K]` -/
theorem map_alb (K : String) (m : List Char) (hm : Mods1 m ∨ ∃ m0, Mods1 m0 ∧ m = m0 ++ ['[', ']']) :
    ∃ m', Mods1 m' ∧ ∀ X : List Char, X.all okC = true →
      afterLastBracket (String.ofList ((mapPre K ++ m) ++ X)) = String.ofList (m' ++ X) := by
  rcases hm with (rfl | rfl) | ⟨m0, _, rfl⟩
  · refine ⟨[], Or.inl rfl, fun X hX => ?_⟩
    have e : (mapPre K ++ []) ++ X = ('m' :: 'a' :: 'p' :: '[' :: K.toList) ++ ']' :: X := by simp [mapPre]
    rw [e, afterLastBracket_split _ _ (fun h => okC_ne_rb (List.all_eq_true.mp hX _ h) rfl)]
    rfl
  · refine ⟨['*'], Or.inr rfl, fun X hX => ?_⟩
    have e : (mapPre K ++ ['*']) ++ X = ('m' :: 'a' :: 'p' :: '[' :: K.toList) ++ ']' :: ('*' :: X) := by simp [mapPre]
    rw [e, afterLastBracket_split]
    · rfl
    · intro h
      rcases List.mem_cons.mp h with h | h
      · revert h; decide
      · exact okC_ne_rb (List.all_eq_true.mp hX _ h) rfl
  · refine ⟨[], Or.inl rfl, fun X hX => ?_⟩
    have e : (mapPre K ++ (m0 ++ ['[', ']'])) ++ X = (mapPre K ++ m0 ++ ['[']) ++ ']' :: X := by simp
    rw [e, afterLastBracket_split _ _ (fun h => okC_ne_rb (List.all_eq_true.mp hX _ h) rfl)]
    rfl

theorem modEnd_mapPre (K : String) (m : List Char) (hm : ModEnd m) : ModEnd (mapPre K ++ m) := by
  rcases hm with rfl | ⟨a, c, rfl, hc⟩
  · exact Or.inr ⟨'m' :: 'a' :: 'p' :: '[' :: K.toList, ']', by simp [mapPre], by decide⟩
  · exact Or.inr ⟨mapPre K ++ a, c, by simp, hc⟩

/-- (M) -/
theorem shape_map (o : List (String × String)) (p K s : String) (hs : Shape Mods1 s) (hp : pkgLike p = true)
    (hq : qualQ o p ≠ "time") :
    (prependPackageNameIfMissing o ("map[" ++ K ++ "]" ++ s) p).toList.contains '*'
        = ("map[" ++ K ++ "]" ++ s).toList.contains '*' ∧
    TyRel (prependPackageNameIfMissing o (afterLastBracket (prependPackageNameIfMissing o ("map[" ++ K ++ "]" ++ s) p)) p)
      (afterLastBracket ("map[" ++ K ++ "]" ++ s)) := by
  obtain ⟨m, b, e, hb, hm⟩ := hs
  have eraw : "map[" ++ K ++ "]" ++ s = String.ofList ((mapPre K ++ m) ++ b) := by
    apply eq_ofList; rw [mapPre_toList, e, List.append_assoc]
  have hme : ModEnd m := by
    rcases hm with hm | ⟨⟨m0, _, rfl⟩, _⟩
    · exact hm.mods2.modEnd
    · exact modEnd_snoc_br m0
  have hm' : Mods1 m ∨ ∃ m0, Mods1 m0 ∧ m = m0 ++ ['[', ']'] := by
    rcases hm with hm | ⟨h, _⟩
    · exact Or.inl hm
    · exact Or.inr h
  obtain ⟨m', hm1, halb⟩ := map_alb K m hm'
  rw [eraw, prepend_shape o _ b p (modEnd_mapPre K m hme) hb hp]
  refine ⟨by simp only [String.toList_ofList, contains_star_qual], ?_⟩
  rw [halb _ (qual_okC o p b hb), halb _ hb, prepend_shape o m' _ p hm1.mods2.modEnd (qual_okC o p b hb) hp, qual_idem]
  exact tyRel_core o p m' b hm1.mods2 hb hq


/-! ## 5. The Go type strings of a sane descriptor have these shapes -/

def identC (c : Char) : Bool := c.isAlphanum || c == '_'

theorem toUpper_good (c : Char) (h : Strcase.isLower c = true) : goodC (Strcase.toUpper c) = true := by
  have h1 : 97 ≤ c.toNat ∧ c.toNat ≤ 122 := by
    simp only [Strcase.isLower, Bool.and_eq_true, decide_eq_true_eq, Char.le_def, UInt32.le_iff_toNat_le] at h
    exact h
  have hc : c = Char.ofNat c.toNat := (Char.ofNat_toNat c).symm
  generalize c.toNat = n at h1 hc
  subst hc
  have : n = 97 ∨ n = 98 ∨ n = 99 ∨ n = 100 ∨ n = 101 ∨ n = 102 ∨ n = 103 ∨ n = 104 ∨ n = 105 ∨ n = 106 ∨ n = 107 ∨
      n = 108 ∨ n = 109 ∨ n = 110 ∨ n = 111 ∨ n = 112 ∨ n = 113 ∨ n = 114 ∨ n = 115 ∨ n = 116 ∨ n = 117 ∨ n = 118 ∨
      n = 119 ∨ n = 120 ∨ n = 121 ∨ n = 122 := by omega
  rcases this with rfl | rfl | rfl | rfl | rfl | rfl | rfl | rfl | rfl | rfl | rfl | rfl | rfl | rfl | rfl | rfl | rfl |
    rfl | rfl | rfl | rfl | rfl | rfl | rfl | rfl | rfl <;> decide

theorem camelLoop_good : ∀ (l : List Char) (run : Bool), l.all identC = true → (gogoCamelLoop run l).all goodC = true
  | [], _, _ => by simp [gogoCamelLoop]
  | c :: rest, run, h => by
    simp only [List.all_cons, Bool.and_eq_true] at h
    have hc : goodC c = true := identC_good h.1
    have ih := fun r => camelLoop_good rest r h.2
    unfold gogoCamelLoop
    repeat' split
    all_goals first
      | exact ih _
      | (simp only [List.all_cons, Bool.and_eq_true]; exact ⟨hc, ih _⟩)
      | (simp only [List.all_cons, Bool.and_eq_true]; exact ⟨toUpper_good c ‹_›, ih _⟩)

theorem camel_good (l : List Char) (h : l.all identC = true) : (gogoCamelCase l).all goodC = true := by
  unfold gogoCamelCase
  split
  · rfl
  · next rest =>
    simp only [List.all_cons, Bool.and_eq_true] at h
    simp only [List.all_cons, camelLoop_good rest false h.2, Bool.and_true]
    decide
  · exact camelLoop_good l false h

theorem identLike_identC {s : String} (h : identLike s = true) : s.toList.all identC = true := h

/-- a base type name: no modifier characters, or `[]byte` -/
def BaseShape (s : String) : Prop := s.toList.all okC = true ∨ s = "[]byte"

theorem scalar_shape (t : String) : BaseShape (scalarGoType t) := by
  unfold scalarGoType
  repeat' split
  all_goals first | exact Or.inl (by decide) | exact Or.inr rfl

theorem shape_of_base (M : List Char → Prop) (m : List Char) (hM : M m) (s t : String) (hs : BaseShape s)
    (ht : t.toList = m ++ s.toList) : Shape M t := by
  rcases hs with hs | rfl
  · exact ⟨m, s.toList, ht, hs, Or.inl hM⟩
  · refine ⟨m ++ ['[', ']'], byteL, ?_, by decide, Or.inr ⟨⟨m, hM, rfl⟩, rfl⟩⟩
    rw [ht]
    have : ("[]byte" : String).toList = ['[', ']'] ++ byteL := by decide
    rw [this, List.append_assoc]

def gogoBase (f : FieldD) : String :=
  if f.customType != "" then f.customType
  else if f.castType != "" then f.castType
  else if f.stdTime then "time.Time"
  else if f.stdDuration then "time.Duration"
  else if f.type == "message" || f.type == "enum" then String.ofList (gogoCamelCase f.typeName.toList)
  else if f.type == "timestamp" then "types.Timestamp"
  else if f.type == "duration" then "types.Duration"
  else scalarGoType f.type

theorem gogoGoType_eq (f : FieldD) : gogoGoType f =
    if f.card == .repeated then "[]" ++ (if needsStar f then "*" ++ gogoBase f else gogoBase f)
    else (if needsStar f then "*" ++ gogoBase f else gogoBase f) := rfl

theorem gogoBase_shape (f : FieldD) (hcu : identLike f.customType = true) (hca : identLike f.castType = true)
    (ht : identLike f.typeName = true) : BaseShape (gogoBase f) := by
  unfold gogoBase
  repeat' split
  · exact Or.inl (all_good_okC (identLike_good hcu))
  · exact Or.inl (all_good_okC (identLike_good hca))
  · exact Or.inl (by decide)
  · exact Or.inl (by decide)
  · exact Or.inl (by rw [String.toList_ofList]; exact all_good_okC (camel_good _ (identLike_identC ht)))
  · exact Or.inl (by decide)
  · exact Or.inl (by decide)
  · exact scalar_shape _

theorem lit_br : ("[]" : String).toList = ['[', ']'] := by decide
theorem lit_star : ("*" : String).toList = ['*'] := by decide

theorem gogoGoType_shape (f : FieldD) (hcu : identLike f.customType = true) (hca : identLike f.castType = true)
    (ht : identLike f.typeName = true) :
    Shape Mods2 (gogoGoType f) ∧ (f.card ≠ .repeated → Shape Mods1 (gogoGoType f)) := by
  have hb := gogoBase_shape f hcu hca ht
  rw [gogoGoType_eq]
  by_cases hr : f.card = .repeated
  · have hr' : (f.card == .repeated) = true := by simp [hr]
    rw [if_pos hr']
    refine ⟨?_, fun h => absurd hr h⟩
    split
    · exact shape_of_base Mods2 ['[', ']', '*'] (Or.inr (Or.inr (Or.inr rfl))) _ _ hb
        (by simp only [String.toList_append, lit_br, lit_star]; simp)
    · exact shape_of_base Mods2 ['[', ']'] (Or.inr (Or.inr (Or.inl rfl))) _ _ hb
        (by simp only [String.toList_append, lit_br])
  · have hr' : ¬ (f.card == .repeated) = true := by simp [hr]
    rw [if_neg hr']
    have h1 : Shape Mods1 (if needsStar f then "*" ++ gogoBase f else gogoBase f) := by
      split
      · exact shape_of_base Mods1 ['*'] (Or.inr rfl) _ _ hb (by simp only [String.toList_append, lit_star])
      · exact shape_of_base Mods1 [] (Or.inl rfl) _ _ hb (by simp)
    exact ⟨h1.mono (fun m => Mods1.mods2), fun _ => h1⟩


/-- the Go type string of a declared field before qualification -/
def rawTy (d : MsgD) (f : FieldD) : String :=
  if f.castType != "" then (if f.card == .repeated then "[]" ++ f.castType else f.castType)
  else if f.customType != "" then (if f.card == .repeated then "[]" ++ f.customType else f.customType)
  else if f.card == .map then "[]*" ++ d.name ++ "_" ++ String.ofList (gogoCamelCase f.name.toList) ++ "Entry"
  else gogoGoType f

theorem goTypeOf_eq (V : CfgView) (d : MsgD) (f : FieldD) :
    goTypeOf V { desc := d, path := "" } f
      = prependPackageNameIfMissing V.importOverride (rawTy d f) V.defaultPackageName := rfl

theorem ident_shape (s : String) (hs : identLike s = true) (rep : Bool) :
    Shape Mods2 (if rep then "[]" ++ s else s) ∧ (rep = false → Shape Mods1 (if rep then "[]" ++ s else s)) := by
  have hb : BaseShape s := Or.inl (all_good_okC (identLike_good hs))
  cases rep with
  | true =>
    refine ⟨?_, fun h => by cases h⟩
    exact shape_of_base Mods2 ['[', ']'] (Or.inr (Or.inr (Or.inl rfl))) _ _ hb
      (by simp only [if_true, String.toList_append, lit_br])
  | false =>
    have h1 : Shape Mods1 (if false = true then "[]" ++ s else s) :=
      shape_of_base Mods1 [] (Or.inl rfl) _ _ hb (by simp)
    exact ⟨h1.mono (fun m => Mods1.mods2), fun _ => h1⟩

theorem entry_shape (d : MsgD) (f : FieldD) (hd : identLike d.name = true) (hf : identLike f.name = true) :
    Shape Mods2 ("[]*" ++ d.name ++ "_" ++ String.ofList (gogoCamelCase f.name.toList) ++ "Entry") := by
  refine ⟨['[', ']', '*'], (d.name ++ "_" ++ String.ofList (gogoCamelCase f.name.toList) ++ "Entry").toList, ?_, ?_,
    Or.inl (Or.inr (Or.inr (Or.inr rfl)))⟩
  · have : ("[]*" : String).toList = ['[', ']', '*'] := by decide
    simp only [String.toList_append, this, List.append_assoc]
  · have h1 : ("_" : String).toList.all okC = true := by decide
    have h2 : ("Entry" : String).toList.all okC = true := by decide
    simp only [String.toList_append, List.all_append, String.toList_ofList, all_good_okC (identLike_good hd), h1, h2,
      all_good_okC (camel_good _ (identLike_identC hf)), Bool.and_self]

theorem rawTy_shape (d : MsgD) (f : FieldD) (hd : identLike d.name = true) (hn : identLike f.name = true)
    (ht : identLike f.typeName = true) (hca : identLike f.castType = true) (hcu : identLike f.customType = true) :
    Shape Mods2 (rawTy d f) ∧ (f.card = .single → Shape Mods1 (rawTy d f)) := by
  unfold rawTy
  split
  · obtain ⟨h1, h2⟩ := ident_shape f.castType hca (f.card == .repeated)
    exact ⟨h1, fun hs => h2 (by rw [hs]; rfl)⟩
  · split
    · obtain ⟨h1, h2⟩ := ident_shape f.customType hcu (f.card == .repeated)
      exact ⟨h1, fun hs => h2 (by rw [hs]; rfl)⟩
    · split
      · next hm =>
        refine ⟨entry_shape d f hd hn, fun hs => ?_⟩
        rw [hs] at hm; cases hm
      · obtain ⟨h1, h2⟩ := gogoGoType_shape f hcu hca ht
        exact ⟨h1, fun hs => h2 (by rw [hs]; decide)⟩

theorem dropStar_shape (s : String) (hs : Shape Mods1 s) : Shape Mods1 (String.ofList (dropStar s.toList)) := by
  obtain ⟨m, b, e, hb, hm⟩ := hs
  rw [e]
  rcases hm with (rfl | rfl) | ⟨⟨m0, (rfl | rfl), rfl⟩, rfl⟩
  · refine ⟨[], b, ?_, hb, Or.inl (Or.inl rfl)⟩
    rw [String.toList_ofList, List.nil_append, dropStar_ok b (all_okC_ne_star hb)]
  · exact ⟨[], b, by simp [dropStar], hb, Or.inl (Or.inl rfl)⟩
  · exact ⟨[] ++ ['[', ']'], byteL, by simp [dropStar], hb, Or.inr ⟨⟨[], Or.inl rfl, rfl⟩, rfl⟩⟩
  · exact ⟨[] ++ ['[', ']'], byteL, by simp [dropStar], hb, Or.inr ⟨⟨[], Or.inl rfl, rfl⟩, rfl⟩⟩

/-- the value type of a map field -/
def mapValTy (f : FieldD) : String :=
  let alias : FieldD := { f.mapValueField with nullable := f.nullable, stdTime := f.stdTime, stdDuration := f.stdDuration }
  let vt := gogoGoType alias
  if f.type == "message" || f.type == "timestamp" || f.type == "duration" then
    (if alias.isNullableOpt then vt else String.ofList (dropStar vt.toList))
  else String.ofList (dropStar vt.toList)

theorem gogoMapGoType_eq (f : FieldD) : gogoMapGoType f = "map[" ++ scalarGoType f.mapKey ++ "]" ++ mapValTy f := rfl

theorem mapValTy_shape (f : FieldD) (ht : identLike f.typeName = true) : Shape Mods1 (mapValTy f) := by
  have h := (gogoGoType_shape
    { f.mapValueField with nullable := f.nullable, stdTime := f.stdTime, stdDuration := f.stdDuration }
    (show identLike "" = true by decide) (show identLike "" = true by decide) ht).2 (by simp [FieldD.mapValueField])
  unfold mapValTy
  simp only []
  split
  · split
    · exact h
    · exact dropStar_shape _ h
  · exact dropStar_shape _ h

/-! ## 6. `SideOK` for sane descriptors -/

theorem fieldOK_sane (V : CfgView) (p : String) (o : List (String × String)) (d : MsgD) (f : FieldD)
    (hV : V.defaultPackageName = "") (hp : pkgLike p = true) (hq : qualifierOf ((o.lookup p).getD p) ≠ "time")
    (hd : identLike d.name = true) (hn : identLike f.name = true) (ht : identLike f.typeName = true)
    (hca : identLike f.castType = true) (hcu : identLike f.customType = true)
    (he : (!f.embed || f.card == .single) = true) : FieldOK (repkg V p o) V d f := by
  obtain ⟨s2, s1⟩ := rawTy_shape d f hd hn ht hca hcu
  have gV : goTypeOf V { desc := d, path := "" } f = rawTy d f := by
    rw [goTypeOf_eq, hV, Props.C13.C13_same_package]
  have gV' : goTypeOf (repkg V p o) { desc := d, path := "" } f = prependPackageNameIfMissing o (rawTy d f) p := rfl
  have mV : mapTyp V f = gogoMapGoType f := by
    unfold mapTyp; rw [hV, Props.C13.C13_same_package]
  have mvV : mapVGo V f = afterLastBracket (gogoMapGoType f) := by
    unfold mapVGo; rw [mV, hV, Props.C13.C13_same_package]
  have mV' : mapTyp (repkg V p o) f = prependPackageNameIfMissing o (gogoMapGoType f) p := rfl
  have mvV' : mapVGo (repkg V p o) f
      = prependPackageNameIfMissing o (afterLastBracket (prependPackageNameIfMissing o (gogoMapGoType f) p)) p := rfl
  refine ⟨?_, ?_, ?_⟩
  · rw [gV, gV']; exact shape_tyRel o p _ s2 hp hq
  · intro hemb
    rw [gV, gV']
    have hs : f.card = .single := by
      rw [hemb] at he
      simpa using he
    exact shape_embed o p _ (s1 hs) hp
  · intro _
    rw [mV, mV', mvV, mvV', gogoMapGoType_eq]
    exact shape_map o p _ _ (mapValTy_shape f ht) hp hq

/-- **`SideOK_sane_full`**: the side condition of `C13_behaves_same` holds for every sane descriptor -/
theorem sideOK_sane : SideOK_sane_full := by
  intro V p o req d hV hp hq hs m hm f hf
  unfold descSane at hs
  have h1 := List.all_eq_true.mp hs m hm
  simp only [Bool.and_eq_true] at h1
  have h2 := List.all_eq_true.mp h1.2 f hf
  simp only [Bool.and_eq_true] at h2
  obtain ⟨⟨⟨⟨hn, ht⟩, hca⟩, hcu⟩, he⟩ := h2
  exact fieldOK_sane V p o m f hV hp hq h1.1 hn ht hca hcu he

/-- **C13 for every sane descriptor**, without side condition -/
theorem C13_behaves_same_sane : C13_behaves_same_full := C13_behaves_same_full_of_sideOK sideOK_sane

/-- the example descriptor of PackageIndep.lean, now through the general theorem (no evaluation of `SideOK`) -/
example : SideOK (viewOf Example.cfg') (viewOf Example.cfg) Example.req Example.outer :=
  sideOK_sane (viewOf Example.cfg) "example.com/x/types" [("example.com/x/types", "example.com/y/api")]
    Example.req Example.outer rfl (by decide) (by decide) (by decide +kernel)

end PGT.PackageSideOK

#print axioms PGT.PackageSideOK.prepend_shape
#print axioms PGT.PackageSideOK.tyRel_core
#print axioms PGT.PackageSideOK.fieldOK_sane
#print axioms PGT.PackageSideOK.sideOK_sane
#print axioms PGT.PackageSideOK.C13_behaves_same_sane
