import PGT.Proofs.ToRender
import PGT.Proofs.FromTotal
import PGT.Props.C19
import Batteries.Data.List.Perm
/-
CopyFrom reads back what CopyTo rendered (C04), for every template of the *plain tree* fragment – scalars, pointer
scalars, placeholders, nested messages, lists and maps of scalars and of messages, at every nesting depth, any
number of fields – by mutual induction over the IR. (Oneof branches and children of nullable embedded messages
are handled in `RoundTripGroups.lean`.)

Statement shape: if the attribute map `attrs` renders the struct `obj` (`Spec.rendersFields`, which is what
`C03_total` establishes for the result of CopyTo), then CopyFrom of `attrs` into a fresh struct succeeds without
diagnostics and yields a struct equal to `obj` in the normal form of C04 (`Spec.nfEqFields`).
-/
namespace PGT
open PGT.Spec PGT.Props

/-- scalar equality in normal form from the equivalence `C19` proves -/
theorem scNfEq_of_scEquiv (y x : Sc) (h : C19.scEquiv y x) : scNfEq y x = true := by
  cases y <;> cases x <;> simp [C19.scEquiv] at h <;> try (subst h; cases ‹Sc› <;> simp [scNfEq])
  all_goals first | (subst h; simp [scNfEq]) | simp [scNfEq, h]

theorem scNfEq_symm (a b : Sc) (h : scNfEq a b = true) : scNfEq b a = true := by
  cases a <;> cases b <;> simp only [scNfEq] at h ⊢
  all_goals first
    | (simp only [Bool.or_eq_true, Bool.and_eq_true, beq_iff_eq] at h ⊢
       rcases h with (h | h) | h
       · exact Or.inl (Or.inl h.symm)
       · exact Or.inl (Or.inr ⟨h.2, h.1⟩)
       · exact Or.inr ⟨h.2, h.1⟩)
    | (simp only [beq_iff_eq] at h ⊢; exact h.symm)
    | (simp at h)
    | trace_state

theorem scNfEq_refl' (x : Sc) : scNfEq x x = true := by
  cases x <;> simp [scNfEq]

/-- the zero value of the representation is the normal form of every zero value of that representation -/
theorem zero_nf' (r : GoRep) (s : Sc) (hr : C19.HasRep r s) (hz : scIsZero s = true) : scNfEq (zeroOfRep r) s = true := by
  cases r <;> cases s <;> simp [C19.HasRep] at hr <;> simp [scIsZero] at hz <;> simp [zeroOfRep, scNfEq, scIsZero, hz]
  all_goals first
    | (subst hz; simp)
    | (right; decide)
    | (left; right; decide)
    | (rename_i v; cases v <;> simp_all)
    | skip

/-- what the round trip needs from the scalar row of a field (established for every row of the regenerated type
table by `C19_field` / `C19_field_f32` and `C20_zero_test_rows`) -/
structure PrimRT (info : FieldInfo) (k : PrimK) : Prop where
  /-- the attribute's Go value type is the Terraform kind `k` -/
  ek : vkindOf info.tf.elemValueType = .prim k
  /-- writing and reading back a value of the field's representation returns it, in normal form -/
  inv : ∀ s c, C19.HasRep info.rep s → info.castTo s = some c → ∃ y, info.castFrom k c = some y ∧ scNfEq y s = true
  /-- pointer-backed scalars (nullable time / duration) are copied without a cast on the way in -/
  invPtr : info.isNullable = true → ∀ s, C19.HasRep info.rep s → ∃ y, info.castFrom k s = some y ∧ scNfEq y s = true

theorem conv_self (r : GoRep) (s : Sc) (h : C19.HasRep r s) : conv r r s = some s := by
  cases r <;> cases s <;> simp [C19.HasRep] at h <;> simp [conv]

/-- `PrimRT` for a field whose row has the shape of the regenerated type table (`C19.rowOK`): every representation
but float32 (whose round trip is `C19_field_f32`, for non-NaN values) -/
theorem primRT_of_row (info : FieldInfo) (k : PrimK) (hek : vkindOf info.tf.elemValueType = .prim k)
    (hmid : k.rep = C19.mid info.rep) (hto : repOfGoType info.tf.valueCastToType = some (C19.mid info.rep))
    (hnf : info.rep ≠ .f32) (hptr : info.isNullable = true → C19.mid info.rep = info.rep) : PrimRT info k where
  ek := hek
  inv := by
    intro s c hs hc
    obtain ⟨c', hc', y, hy, he⟩ := C19.C19_field info k hmid hto hnf s hs
    rw [hc] at hc'
    injection hc' with hc'
    subst hc'
    exact ⟨y, hy, scNfEq_of_scEquiv y s he⟩
  invPtr := by
    intro hn s hs
    refine ⟨s, ?_, scNfEq_refl' s⟩
    simp [FieldInfo.castFrom, hmid, hptr hn, conv_self _ _ hs]

/-- a Go value of the field's scalar type -/
def PrimVal (info : FieldInfo) (x : GoVal) : Prop :=
  if info.isNullable then x = .ptr none ∨ ∃ s, x = .ptr (some (.sc s)) ∧ C19.HasRep info.rep s
  else ∃ s, x = .sc s ∧ C19.HasRep info.rep s

/-- decoding the rendering of a scalar value gives the value back, in normal form; the diagnostics stay empty -/
theorem primDecode_renders (info : FieldInfo) (k : PrimK) (hrt : PrimRT info k) (x : GoVal) (hx : PrimVal info x)
    (k' : PrimK) (u n : Bool) (p : Sc) (hr : primRenders info x (.prim k' u n p) = true) :
    k' = k ∧ ∃ y, primDecode info k' u n p = .ok y ∧ primNfEq info.isNullable x y = true := by
  unfold primRenders at hr
  simp only [Bool.and_eq_true, Bool.not_eq_true', beq_iff_eq] at hr
  obtain ⟨⟨hu, hkk⟩, hrest⟩ := hr
  have hk : k' = k := by
    unfold primKindOf at hkk
    rw [hrt.ek] at hkk
    injection hkk with hkk
    exact hkk.symm
  subst hk
  subst hu
  refine ⟨rfl, ?_⟩
  unfold PrimVal at hx
  unfold primDecode known
  by_cases hn : info.isNullable = true
  · simp only [hn, if_true] at hx hrest ⊢
    rcases hx with rfl | ⟨s, rfl, hs⟩
    · simp only at hrest
      subst hrest
      exact ⟨.ptr none, by simp [zeroPrim, hn], by simp [primNfEq]⟩
    · simp only [Bool.and_eq_true, Bool.not_eq_true', beq_iff_eq] at hrest
      obtain ⟨hnn, hp⟩ := hrest
      subst hnn hp
      obtain ⟨y, hy, he⟩ := hrt.invPtr hn p hs
      refine ⟨.ptr (some (.sc y)), by simp [hy], ?_⟩
      simp only [primNfEq, if_true]
      exact scNfEq_symm _ _ he
  · have hn' : info.isNullable = false := by simpa using hn
    simp only [hn', Bool.false_eq_true, if_false] at hx hrest ⊢
    obtain ⟨s, rfl, hs⟩ := hx
    simp only [Bool.and_eq_true] at hrest
    obtain ⟨hcast, hnull⟩ := hrest
    cases hc : info.castTo s with
    | none => simp [hc] at hcast
    | some c =>
      simp only [hc, beq_iff_eq] at hcast
      subst hcast
      obtain ⟨y, hy, he⟩ := hrt.inv s p hs hc
      cases n with
      | false =>
        refine ⟨.sc y, by simp [hy], ?_⟩
        simp only [primNfEq, Bool.false_eq_true, if_false]
        exact scNfEq_symm _ _ he
      | true =>
        refine ⟨.sc (zeroOfRep info.rep), by simp [zeroPrim, hn'], ?_⟩
        simp only [primNfEq, Bool.false_eq_true, if_false]
        -- the attribute is null only when the zero test fired
        have hz : scIsZero s = true := by
          by_cases hzv : (info.tf.zeroValue != "") = true
          · simp only [hzv, if_true, beq_iff_eq] at hnull
            exact hnull.symm
          · simp only [hzv] at hnull
            simp at hnull
        exact scNfEq_symm _ _ (zero_nf' _ _ hs hz)

-- ------------------------------------------------------------------------------------------------------
-- the comparison of C04 on the two values of one field

/-- message-typed values compared in normal form -/
def msgNfEq (nullable : Bool) (sub : List Field) (p q : GoVal) : Bool :=
  if nullable then (isNilPtr p && isNilPtr q) || (!isNilPtr p && !isNilPtr q && nfEqFields sub (structOf p) (structOf q))
  else nfEqFields sub (structOf p) (structOf q)

/-- `Spec.nfEqField` as a function of the two values of the field (fields outside oneof groups) -/
def valNfEq (f : Field) (x y : GoVal) : Bool :=
  match f with
  | ⟨info, _, _, sub⟩ =>
    match info.kind with
    | .primitive => if info.isPlaceholder then true else primNfEq info.isNullable x y
    | .custom =>
      if info.isRepeated then
        (sliceElems x).length == (sliceElems y).length &&
          ((sliceElems x).zip (sliceElems y)).all fun (p, q) => primNfEq false p q
      else primNfEq false x y
    | .object => msgNfEq info.isNullable sub x y
    | .primitiveList =>
      (sliceElems x).length == (sliceElems y).length &&
        ((sliceElems x).zip (sliceElems y)).all fun (p, q) => primNfEq info.isNullable p q
    | .objectList =>
      (sliceElems x).length == (sliceElems y).length &&
        ((sliceElems x).zip (sliceElems y)).all fun (p, q) => msgNfEq info.isNullable sub p q
    | .primitiveMap =>
      (mapElems x).length == (mapElems y).length &&
        (mapElems x).all fun (k, p) => match (mapElems y).lookup k with | some q => primNfEq info.isNullable p q | none => false
    | .objectMap =>
      (mapElems x).length == (mapElems y).length &&
        (mapElems x).all fun (k, p) => match (mapElems y).lookup k with
          | some q => msgNfEq info.isNullable sub p q
          | none => false

theorem nfEqField_eq_valNfEq (f : Field) (a b : GoVal) (h : f.info.oneOfName = "") :
    nfEqField f a b = valNfEq f (getVal f.info a) (getVal f.info b) := by
  obtain ⟨info, mv, msg, sub⟩ := f
  simp only at h
  unfold nfEqField valNfEq msgNfEq
  simp only [h, bne_self_eq_false, Bool.false_eq_true, if_false]
  cases info.kind <;> rfl

/-- reading a field that is neither a oneof branch nor a child of a nullable embedded message -/
theorem getVal_plain (info : FieldInfo) (b : GoVal) (ho : info.oneOfName = "") (he : info.parentIsOptionalEmbed = false) :
    getVal info b = (b.field? info.name).getD (zeroGoOf info) := by
  unfold getVal
  simp [ho, he]

theorem getVal_setField_same (info : FieldInfo) (b y : GoVal) (hb : IsStruct b) (ho : info.oneOfName = "")
    (he : info.parentIsOptionalEmbed = false) : getVal info (b.setField info.name y) = y := by
  rw [getVal_plain info _ ho he, field?_setField_same b info.name y hb]
  rfl

theorem field?_setField_other (b : GoVal) (n m : String) (y : GoVal) (h : m ≠ n) : (b.setField n y).field? m = b.field? m := by
  cases b <;> simp [GoVal.setField, GoVal.field?]
  exact lookup_setKey_other _ _ _ h _

-- ------------------------------------------------------------------------------------------------------
-- hypotheses on the IR and the value (plain tree)

/-- a message without proto fields consists of placeholders only -/
def EmptyOK (msg : Option MsgInfo) (sub : List Field) : Prop :=
  isEmptyMsg msg = true → ∀ g ∈ sub, g.info.isPlaceholder = true ∧ g.info.kind = .primitive ∧ g.info.oneOfName = ""

theorem nfEqFields_placeholders : ∀ (sub : List Field) (a b : GoVal),
    (∀ g ∈ sub, g.info.isPlaceholder = true ∧ g.info.kind = .primitive ∧ g.info.oneOfName = "") → nfEqFields sub a b = true
  | [], _, _, _ => by simp [nfEqFields]
  | g :: rest, a, b, h => by
    obtain ⟨hp, hk, ho⟩ := h g (by simp)
    unfold nfEqFields
    rw [nfEqFields_placeholders rest a b (fun g' hg' => h g' (by simp [hg']))]
    obtain ⟨info, mv, msg, sub⟩ := g
    simp only at hp hk ho
    unfold nfEqField
    simp [ho, hk, hp]

mutual
/-- field `f` of struct `obj` can be read back: the IR is consistent (value types fit the kinds, scalar rows round
trip), the field is neither a oneof branch nor a child of a nullable embedded message nor a custom type, and the value is
typed -/
def RTOK : Field → GoVal → Prop
  | ⟨info, mapVal, msg, sub⟩, obj =>
    info.oneOfName = "" ∧ info.parentIsOptionalEmbed = false ∧ EmptyOK msg sub ∧
    (info.isPlaceholder = true → info.kind = .primitive) ∧
    match info.kind with
    | .primitive =>
      info.isPlaceholder = true ∨
        ∃ k, PrimRT info k ∧ vkindOf info.tf.valueType = .prim k ∧ PrimVal info (getVal info obj)
    | .object =>
      vkindOf info.tf.valueType = .obj ∧ MsgTyped info.isNullable (fun s => RTOKs sub s) (getVal info obj)
    | .primitiveList =>
      vkindOf info.tf.valueType = .list ∧ info.isPlaceholder = false ∧
        ∃ k, PrimRT info k ∧ ∀ e ∈ sliceElems (getVal info obj), PrimVal info e
    | .objectList =>
      vkindOf info.tf.valueType = .list ∧ vkindOf info.tf.elemValueType = .obj ∧
        ∀ e ∈ sliceElems (getVal info obj), MsgTyped info.isNullable (fun s => RTOKs sub s) e
    | .primitiveMap =>
      vkindOf info.tf.valueType = .map ∧ info.isPlaceholder = false ∧
        (mapVal.getD info).tf.elemValueType = info.tf.elemValueType ∧
        ((mapElems (getVal info obj)).map (·.1)).Nodup ∧
        ∃ k, PrimRT info k ∧ ∀ e ∈ mapElems (getVal info obj), PrimVal info e.2
    | .objectMap =>
      vkindOf info.tf.valueType = .map ∧ vkindOf (mapVal.getD info).tf.elemValueType = .obj ∧
        ((mapElems (getVal info obj)).map (·.1)).Nodup ∧
        ∀ e ∈ mapElems (getVal info obj), MsgTyped info.isNullable (fun s => RTOKs sub s) e.2
    | .custom => False

/-- … for all fields of a message; Go field names pairwise distinct -/
def RTOKs : List Field → GoVal → Prop
  | [], _ => True
  | f :: rest, obj => RTOK f obj ∧ f.info.name ∉ rest.map (·.info.name) ∧ RTOKs rest obj
end

/-- what the recursive call on the nested message does with a rendering -/
def RecReads (rec : FromRec) (sub : List Field) (P : GoVal → Prop) : Prop :=
  ∀ (s : GoVal) (as : Option (List (String × TfVal))) (ds : List Diag) (hs : List HookCall),
    rendersFields sub s (as.getD []) = true → P s →
    ∃ o, rec as { obj := .struct [], diags := ds, hooks := hs } = .ok { obj := o, diags := ds, hooks := hs } ∧
      IsStruct o ∧ nfEqFields sub s o = true

/-- result of a field block of the plain tree: the field is assigned `y`, nothing else happens -/
def WritesField (info : FieldInfo) (st : FromSt) (o : Outcome FromSt) (P : GoVal → Prop) : Prop :=
  ∃ y, o = .ok { st with obj := st.obj.setField info.name y } ∧ P y

theorem embedGuard_plain (info : FieldInfo) (a : TfVal) (obj : GoVal) (he : info.parentIsOptionalEmbed = false) :
    embedGuard info a obj = some obj := by
  simp [embedGuard, he]

theorem writeField_plain (info : FieldInfo) (obj x : GoVal) (he : info.parentIsOptionalEmbed = false) :
    writeField info obj x = .ok (obj.setField info.name x) := by
  simp [writeField, he]

theorem fieldWith_prim (rec : FromRec) (ov : List (String × String)) (info : FieldInfo) (mv : Option FieldInfo)
    (msg : Option MsgInfo) (attrs : Option (List (String × TfVal))) (st : FromSt) (a : TfVal) (x : GoVal)
    (hk : info.kind = .primitive) (ho : info.oneOfName = "") (he : info.parentIsOptionalEmbed = false)
    (k : PrimK) (hrt : PrimRT info k) (hvt : vkindOf info.tf.valueType = .prim k) (hx : PrimVal info x)
    (hl : (attrs.getD []).lookup info.nameSnake = some a) (hr : primRenders info x a = true) :
    WritesField info st (copyFromFieldWith rec ov info mv msg attrs st)
      (fun y => primNfEq info.isNullable x y = true) := by
  cases a with
  | prim k' u n p =>
    obtain ⟨rfl, y, hd, hy⟩ := primDecode_renders info k hrt x hx k' u n p hr
    refine ⟨y, ?_, hy⟩
    unfold copyFromFieldWith
    simp [hk, hl, TfVal.vkind, hvt, embedGuard_plain info _ _ he, hd, ho, he]
  | list _ _ _ _ => simp [primRenders] at hr
  | map _ _ _ _ => simp [primRenders] at hr
  | obj _ _ _ _ => simp [primRenders] at hr
  | nilv => simp [primRenders] at hr
  | foreign _ => simp [primRenders] at hr

theorem setKey_setKey_same {α} (k : String) (v w : α) : ∀ l : List (String × α), setKey k v (setKey k w l) = setKey k v l
  | [] => by simp [setKey]
  | (k', v') :: rest => by
    by_cases h : (k' == k) = true
    · simp [setKey, h]
    · simp [setKey, h, setKey_setKey_same k v w rest]

theorem setField_setField_same (b : GoVal) (n : String) (x y : GoVal) :
    (b.setField n x).setField n y = b.setField n y := by
  cases b <;> simp [GoVal.setField, setKey_setKey_same]

theorem fieldWith_obj (rec : FromRec) (ov : List (String × String)) (info : FieldInfo) (mv : Option FieldInfo)
    (msg : Option MsgInfo) (sub : List Field) (attrs : Option (List (String × TfVal))) (st : FromSt) (a : TfVal) (x : GoVal)
    (P : GoVal → Prop) (hrec : RecReads rec sub P)
    (hk : info.kind = .object) (ho : info.oneOfName = "") (he : info.parentIsOptionalEmbed = false)
    (hem : EmptyOK msg sub) (hvt : vkindOf info.tf.valueType = .obj)
    (hx : MsgTyped info.isNullable P x)
    (hl : (attrs.getD []).lookup info.nameSnake = some a)
    (hr : objRenders info.isNullable (fun o as => rendersFields sub o as) x a = true) :
    WritesField info st (copyFromFieldWith rec ov info mv msg attrs st)
      (fun y => msgNfEq info.isNullable sub x y = true) := by
  cases a with
  | obj u n as atys =>
    unfold objRenders at hr
    simp only [Bool.and_eq_true, Bool.not_eq_true'] at hr
    obtain ⟨hu, hr⟩ := hr
    subst hu
    unfold MsgTyped at hx
    unfold copyFromFieldWith WritesField
    simp only [hk, hl, TfVal.vkind, hvt, embedGuard_plain info _ _ he, ho, writeField_plain info _ _ he]
    by_cases hn : info.isNullable = true
    · simp only [hn, if_true] at hx hr ⊢
      simp only [Bool.and_eq_true, beq_iff_eq, Bool.or_eq_true] at hr
      rcases hx with rfl | ⟨fs, rfl, hP⟩
      · -- nil pointer: the attribute is null
        have : n = true := by simpa [isNilPtr] using hr.1
        subst this
        refine ⟨.ptr none, by simp [known], by simp [msgNfEq, hn, isNilPtr]⟩
      · have hnn : n = false := by simpa [isNilPtr] using hr.1
        subst hnn
        have hR : rendersFields sub (.struct fs) (as.getD []) = true := by simpa [isNilPtr, structOf] using hr.2
        cases hE : isEmptyMsg msg with
        | true =>
          refine ⟨.ptr (some (.struct [])), by simp [known, hE, setField_setField_same], ?_⟩
          simp [msgNfEq, hn, isNilPtr, structOf, nfEqFields_placeholders sub _ _ (hem hE)]
        | false =>
          obtain ⟨o, hrun, _, hnf⟩ := hrec (.struct fs) as st.diags st.hooks hR hP
          refine ⟨.ptr (some o), ?_, ?_⟩
          · simp [known, hE, hrun, setField_setField_same]
          · simp [msgNfEq, hn, isNilPtr, structOf, hnf]
    · have hn' : info.isNullable = false := by simpa using hn
      simp only [hn', Bool.false_eq_true, if_false] at hx hr ⊢
      simp only [Bool.and_eq_true, Bool.not_eq_true'] at hr
      obtain ⟨fs, rfl, hP⟩ := hx
      obtain ⟨hnn, hR⟩ := hr
      subst hnn
      have hR' : rendersFields sub (.struct fs) (as.getD []) = true := by simpa [structOf] using hR
      cases hE : isEmptyMsg msg with
      | true =>
        refine ⟨.struct [], by simp [known, hE, setField_setField_same], ?_⟩
        simp [msgNfEq, hn', structOf, nfEqFields_placeholders sub _ _ (hem hE)]
      | false =>
        obtain ⟨o, hrun, hso, hnf⟩ := hrec (.struct fs) as st.diags st.hooks hR' hP
        refine ⟨o, ?_, ?_⟩
        · simp [known, hE, hrun, setField_setField_same]
        · have hso' : structOf o = o := by cases o <;> simp_all [IsStruct, structOf]
          simp only [msgNfEq, hn', Bool.false_eq_true, if_false, hso']
          simpa [structOf] using hnf
  | prim _ _ _ _ => simp [objRenders] at hr
  | list _ _ _ _ => simp [objRenders] at hr
  | map _ _ _ _ => simp [objRenders] at hr
  | nilv => simp [objRenders] at hr
  | foreign _ => simp [objRenders] at hr

-- ------------------------------------------------------------------------------------------------------
-- element loops

/-- the element body reads the rendering `v` of a typed element `e` back as some `y` related to `e` by `Q` -/
def ElemReads (body : TfVal → List Diag → List HookCall → Outcome (Option GoVal × List Diag × List HookCall))
    (T : GoVal → Prop) (R : GoVal → TfVal → Bool) (Q : GoVal → GoVal → Bool) : Prop :=
  ∀ e v ds hs, T e → R e v = true → ∃ y, body v ds hs = .ok (some y, ds, hs) ∧ Q e y = true

theorem fromElemsList_reads (body : TfVal → List Diag → List HookCall → Outcome (Option GoVal × List Diag × List HookCall))
    (T : GoVal → Prop) (R : GoVal → TfVal → Bool) (Q : GoVal → GoVal → Bool) (hb : ElemReads body T R Q)
    (ds : List Diag) (hs : List HookCall) :
    ∀ (vs : List TfVal) (xs : List GoVal) (pre post : List GoVal),
      vs.length = xs.length → (xs.zip vs).all (fun (e, v) => R e v) = true → (∀ e ∈ xs, T e) → post.length = vs.length →
      ∃ ys, fromElemsList body vs pre.length (pre ++ post) ds hs = .ok (pre ++ ys, ds, hs) ∧ ys.length = xs.length ∧
        (xs.zip ys).all (fun (e, y) => Q e y) = true
  | [], xs, pre, post, hl, _, _, hp => by
    have hx : xs = [] := by cases xs <;> simp_all
    have hpost : post = [] := by simpa using hp
    subst hx hpost
    exact ⟨[], by simp [fromElemsList], rfl, by simp⟩
  | v :: vs, xs, pre, post, hl, hall, hT, hp => by
    cases xs with
    | nil => simp at hl
    | cons e xs =>
      cases post with
      | nil => simp at hp
      | cons p0 post' =>
        simp only [List.zip_cons_cons, List.all_cons, Bool.and_eq_true] at hall
        obtain ⟨y, hrun, hq⟩ := hb e v ds hs (hT e (by simp)) hall.1
        have hset : (pre ++ p0 :: post').set pre.length y = (pre ++ [y]) ++ post' := by
          simp [List.set_append_right]
        obtain ⟨ys, hrun2, hlen, hall2⟩ := fromElemsList_reads body T R Q hb ds hs vs xs (pre ++ [y]) post'
          (by simpa using hl) hall.2 (fun e' he' => hT e' (by simp [he'])) (by simpa using hp)
        refine ⟨y :: ys, ?_, by simp [hlen], by simp [hq, hall2]⟩
        simp only [fromElemsList, hrun, hset]
        have : (pre ++ [y]).length = pre.length + 1 := by simp
        rw [this] at hrun2
        rw [hrun2]
        simp

theorem elemReads_prim (rec : FromRec) (ov : List (String × String)) (info vf : FieldInfo) (k : PrimK)
    (hrt : PrimRT info k) (hvf : vkindOf vf.tf.elemValueType = .prim k)
    (hk : info.kind = .primitiveList ∨ info.kind = .primitiveMap) :
    ElemReads (fromElemBody rec ov info vf) (PrimVal info) (fun e v => primRenders info e v)
      (fun e y => primNfEq info.isNullable e y) := by
  intro e v ds hs hT hR
  cases v with
  | prim k' u n p =>
    obtain ⟨rfl, y, hd, hy⟩ := primDecode_renders info k hrt e hT k' u n p hR
    refine ⟨y, ?_, hy⟩
    unfold fromElemBody
    rcases hk with hk | hk <;> simp [TfVal.vkind, hvf, hk, hd]
  | list _ _ _ _ => simp [primRenders] at hR
  | map _ _ _ _ => simp [primRenders] at hR
  | obj _ _ _ _ => simp [primRenders] at hR
  | nilv => simp [primRenders] at hR
  | foreign _ => simp [primRenders] at hR

theorem elemReads_obj (rec : FromRec) (ov : List (String × String)) (info vf : FieldInfo) (sub : List Field)
    (P : GoVal → Prop) (hrec : RecReads rec sub P) (hvf : vkindOf vf.tf.elemValueType = .obj)
    (hk : info.kind = .objectList ∨ info.kind = .objectMap) :
    ElemReads (fromElemBody rec ov info vf) (MsgTyped info.isNullable P)
      (fun e v => objRenders info.isNullable (fun o as => rendersFields sub o as) e v)
      (fun e y => msgNfEq info.isNullable sub e y) := by
  intro e v ds hs hT hR
  cases v with
  | obj u n as atys =>
    unfold objRenders at hR
    simp only [Bool.and_eq_true, Bool.not_eq_true'] at hR
    obtain ⟨hu, hR⟩ := hR
    subst hu
    unfold MsgTyped at hT
    unfold fromElemBody
    have hkk : (info.kind == .objectList || info.kind == .objectMap) = true := by rcases hk with hk | hk <;> simp [hk]
    simp only [TfVal.vkind, hvf, hkk, if_true]
    by_cases hn : info.isNullable = true
    · simp only [hn, if_true] at hT hR ⊢
      simp only [Bool.and_eq_true, beq_iff_eq, Bool.or_eq_true] at hR
      rcases hT with rfl | ⟨fs, rfl, hP⟩
      · have : n = true := by simpa [isNilPtr] using hR.1
        subst this
        exact ⟨.ptr none, by simp [known, zeroMsg, hn], by simp [msgNfEq, hn, isNilPtr]⟩
      · have hnn : n = false := by simpa [isNilPtr] using hR.1
        subst hnn
        have hR' : rendersFields sub (.struct fs) (as.getD []) = true := by simpa [isNilPtr, structOf] using hR.2
        obtain ⟨o, hrun, _, hnf⟩ := hrec (.struct fs) as ds hs hR' hP
        refine ⟨.ptr (some o), by simp [known, hrun], ?_⟩
        simp [msgNfEq, isNilPtr, structOf, hnf]
    · have hn' : info.isNullable = false := by simpa using hn
      simp only [hn', Bool.false_eq_true, if_false] at hT hR ⊢
      simp only [Bool.and_eq_true, Bool.not_eq_true'] at hR
      obtain ⟨fs, rfl, hP⟩ := hT
      obtain ⟨hnn, hR⟩ := hR
      subst hnn
      have hR' : rendersFields sub (.struct fs) (as.getD []) = true := by simpa [structOf] using hR
      obtain ⟨o, hrun, hso, hnf⟩ := hrec (.struct fs) as ds hs hR' hP
      refine ⟨o, by simp [known, hrun], ?_⟩
      have hso' : structOf o = o := by cases o <;> simp_all [IsStruct, structOf]
      simp only [msgNfEq, Bool.false_eq_true, if_false, hso']
      simpa [structOf] using hnf
  | prim _ _ _ _ => simp [objRenders] at hR
  | list _ _ _ _ => simp [objRenders] at hR
  | map _ _ _ _ => simp [objRenders] at hR
  | nilv => simp [objRenders] at hR
  | foreign _ => simp [objRenders] at hR

/-- what `Spec.rendersVal` says about a list attribute, with the element relation abstracted -/
def listRenders (R : GoVal → TfVal → Bool) (x : GoVal) (a : TfVal) : Bool :=
  match a with
  | .list u n es _ =>
    !u && n == (sliceElems x).isEmpty && (es.getD []).length == (sliceElems x).length &&
      ((sliceElems x).zip (es.getD [])).all fun (e, v) => R e v
  | _ => false

theorem fieldWith_list (rec : FromRec) (ov : List (String × String)) (info : FieldInfo) (mv : Option FieldInfo)
    (msg : Option MsgInfo) (attrs : Option (List (String × TfVal))) (st : FromSt) (a : TfVal) (x : GoVal)
    (T : GoVal → Prop) (R : GoVal → TfVal → Bool) (Q : GoVal → GoVal → Bool)
    (hb : ElemReads (fromElemBody rec ov info info) T R Q)
    (hk : info.kind = .primitiveList ∨ info.kind = .objectList) (ho : info.oneOfName = "")
    (he : info.parentIsOptionalEmbed = false) (hvt : vkindOf info.tf.valueType = .list)
    (hT : ∀ e ∈ sliceElems x, T e)
    (hl : (attrs.getD []).lookup info.nameSnake = some a) (hr : listRenders R x a = true) :
    WritesField info st (copyFromFieldWith rec ov info mv msg attrs st)
      (fun y => ((sliceElems x).length == (sliceElems y).length &&
        ((sliceElems x).zip (sliceElems y)).all fun (p, q) => Q p q) = true) := by
  cases a with
  | list u n es ety =>
    unfold listRenders at hr
    simp only [Bool.and_eq_true, Bool.not_eq_true', beq_iff_eq] at hr
    obtain ⟨⟨⟨hu, hn⟩, hlen⟩, hall⟩ := hr
    subst hu
    unfold copyFromFieldWith WritesField
    cases n with
    | true =>
      -- null list: the field is empty
      have hx : sliceElems x = [] := by
        have : (sliceElems x).isEmpty = true := hn.symm
        simpa using this
      refine ⟨.slice (some []), ?_, by simp only [hx]; simp [sliceElems]⟩
      rcases hk with hk | hk <;>
        simp [hk, hl, TfVal.vkind, hvt, embedGuard_plain info _ _ he, writeField_plain info _ _ he, known]
    | false =>
      obtain ⟨ys, hrun, hlen2, hall2⟩ := fromElemsList_reads (fromElemBody rec ov info info) T R Q hb st.diags st.hooks
        (es.getD []) (sliceElems x) [] (List.replicate (es.getD []).length (zeroElem info)) hlen hall hT (by simp)
      simp only [List.length_nil, List.nil_append] at hrun
      refine ⟨.slice (some ys), ?_, by
        have hsl : sliceElems (GoVal.slice (some ys)) = ys := rfl
        simp only [hsl]
        simp [hlen2, hall2]⟩
      rcases hk with hk | hk <;>
        simp [hk, hl, TfVal.vkind, hvt, embedGuard_plain info _ _ he, writeField_plain info _ _ he, known, hrun,
          setField_setField_same]
  | prim _ _ _ _ => simp [listRenders] at hr
  | obj _ _ _ _ => simp [listRenders] at hr
  | map _ _ _ _ => simp [listRenders] at hr
  | nilv => simp [listRenders] at hr
  | foreign _ => simp [listRenders] at hr

-- ------------------------------------------------------------------------------------------------------
-- association lists with distinct keys

theorem mem_keys_of_lookup {α} (k : String) : ∀ (l : List (String × α)) (v : α), l.lookup k = some v → k ∈ l.map (·.1)
  | [], _, h => by simp [List.lookup] at h
  | (k', v') :: rest, v, h => by
    simp only [List.lookup] at h
    split at h
    · rename_i heq
      have : k = k' := by simpa using heq
      simp [this]
    · simp [mem_keys_of_lookup k rest v h]

theorem lookup_of_mem_nodup {α} : ∀ (l : List (String × α)) (k : String) (v : α), (l.map (·.1)).Nodup → (k, v) ∈ l →
    l.lookup k = some v
  | [], _, _, _, h => by simp at h
  | (k', v') :: rest, k, v, hnd, h => by
    simp only [List.map_cons, List.nodup_cons] at hnd
    simp only [List.mem_cons, Prod.mk.injEq] at h
    rcases h with ⟨rfl, rfl⟩ | h
    · simp [List.lookup]
    · have hne : k ≠ k' := by
        intro e
        subst e
        exact hnd.1 (List.mem_map_of_mem (f := (·.1)) h)
      have : (k == k') = false := by simpa using hne
      simp [List.lookup, this, lookup_of_mem_nodup rest k v hnd.2 h]

/-- distinct source keys that all occur among equally many attribute keys: the attribute keys are distinct too and
every one of them is a source key -/
theorem keys_match {α β} (X : List (String × α)) (es : List (String × β)) (hnd : (X.map (·.1)).Nodup)
    (hsub : ∀ kv ∈ X, (es.lookup kv.1).isSome = true) (hlen : es.length = X.length) :
    (es.map (·.1)).Nodup ∧ ∀ kv ∈ es, kv.1 ∈ X.map (·.1) := by
  have hss : X.map (·.1) ⊆ es.map (·.1) := by
    intro k hk
    obtain ⟨kv, hkv, rfl⟩ := List.mem_map.mp hk
    have := hsub kv hkv
    cases hl : es.lookup kv.1 with
    | none => simp [hl] at this
    | some v => exact mem_keys_of_lookup _ _ _ hl
  have hperm : (X.map (·.1)).Perm (es.map (·.1)) :=
    (List.subperm_of_subset hnd hss).perm_of_length_le (by simp [hlen])
  refine ⟨hperm.nodup_iff.mp hnd, ?_⟩
  intro kv hkv
  exact hperm.symm.subset (List.mem_map_of_mem (f := (·.1)) hkv)

theorem fromElemsMap_reads (body : TfVal → List Diag → List HookCall → Outcome (Option GoVal × List Diag × List HookCall))
    (T : GoVal → Prop) (R : GoVal → TfVal → Bool) (Q : GoVal → GoVal → Bool) (hb : ElemReads body T R Q)
    (X : List (String × GoVal)) (ds : List Diag) (hs : List HookCall) :
    ∀ (vs : List (String × TfVal)) (acc : List (String × GoVal)),
      (vs.map (·.1)).Nodup → (∀ kv ∈ vs, acc.lookup kv.1 = none) →
      (∀ kv ∈ vs, ∃ e, X.lookup kv.1 = some e ∧ T e ∧ R e kv.2 = true) →
      ∃ ys, fromElemsMap body vs acc ds hs = .ok (ys, ds, hs) ∧ ys.length = acc.length + vs.length ∧
        (∀ kv ∈ vs, ∃ e y, X.lookup kv.1 = some e ∧ ys.lookup kv.1 = some y ∧ Q e y = true) ∧
        (∀ key, key ∉ vs.map (·.1) → ys.lookup key = acc.lookup key)
  | [], acc, _, _, _ => ⟨acc, by simp [fromElemsMap], by simp, by simp, by simp⟩
  | (k, v) :: rest, acc, hnd, hnone, hsrc => by
    simp only [List.map_cons, List.nodup_cons] at hnd
    obtain ⟨e, hxe, hTe, hRe⟩ := hsrc (k, v) (by simp)
    obtain ⟨y, hrun, hq⟩ := hb e v ds hs hTe hRe
    have hnone' : ∀ kv ∈ rest, (setKey k y acc).lookup kv.1 = none := by
      intro kv hkv
      have hne : kv.1 ≠ k := by
        intro h
        exact hnd.1 (by rw [← h]; exact List.mem_map_of_mem (f := (·.1)) hkv)
      rw [lookup_setKey_other _ _ _ hne]
      exact hnone kv (by simp [hkv])
    obtain ⟨ys, hrun2, hlen, hall, hframe⟩ := fromElemsMap_reads body T R Q hb X ds hs rest (setKey k y acc) hnd.2 hnone'
      (fun kv hkv => hsrc kv (by simp [hkv]))
    refine ⟨ys, ?_, ?_, ?_, ?_⟩
    · simp only [fromElemsMap, hrun]
      exact hrun2
    · rw [hlen, length_setKey_new k y acc (hnone (k, v) (by simp))]
      simp; omega
    · intro kv hkv
      simp only [List.mem_cons] at hkv
      rcases hkv with rfl | hkv
      · refine ⟨e, y, hxe, ?_, hq⟩
        rw [hframe k hnd.1]
        exact lookup_setKey_same _ _ _
      · exact hall kv hkv
    · intro key hkey
      simp only [List.map_cons, List.mem_cons, not_or] at hkey
      rw [hframe key hkey.2]
      exact lookup_setKey_other _ _ _ hkey.1 _

/-- what `Spec.rendersVal` says about a map attribute, with the element relation abstracted -/
def mapRenders (R : GoVal → TfVal → Bool) (x : GoVal) (a : TfVal) : Bool :=
  match a with
  | .map u n es _ =>
    !u && n == (mapElems x).isEmpty && (es.getD []).length == (mapElems x).length &&
      (mapElems x).all fun (k, e) => match (es.getD []).lookup k with
        | some v => R e v
        | none => false
  | _ => false

theorem fieldWith_map (rec : FromRec) (ov : List (String × String)) (info : FieldInfo) (mv : Option FieldInfo)
    (msg : Option MsgInfo) (attrs : Option (List (String × TfVal))) (st : FromSt) (a : TfVal) (x : GoVal)
    (T : GoVal → Prop) (R : GoVal → TfVal → Bool) (Q : GoVal → GoVal → Bool)
    (hb : ElemReads (fromElemBody rec ov info (mv.getD info)) T R Q)
    (hk : info.kind = .primitiveMap ∨ info.kind = .objectMap) (ho : info.oneOfName = "")
    (he : info.parentIsOptionalEmbed = false) (hvt : vkindOf info.tf.valueType = .map)
    (hnd : ((mapElems x).map (·.1)).Nodup) (hT : ∀ e ∈ mapElems x, T e.2)
    (hl : (attrs.getD []).lookup info.nameSnake = some a) (hr : mapRenders R x a = true) :
    WritesField info st (copyFromFieldWith rec ov info mv msg attrs st)
      (fun y => ((mapElems x).length == (mapElems y).length &&
        (mapElems x).all fun (k, p) => match (mapElems y).lookup k with | some q => Q p q | none => false) = true) := by
  cases a with
  | map u n es ety =>
    unfold mapRenders at hr
    simp only [Bool.and_eq_true, Bool.not_eq_true', beq_iff_eq] at hr
    obtain ⟨⟨⟨hu, hn⟩, hlen⟩, hall⟩ := hr
    subst hu
    unfold copyFromFieldWith WritesField
    cases n with
    | true =>
      have hx : mapElems x = [] := by
        have : (mapElems x).isEmpty = true := hn.symm
        simpa using this
      refine ⟨.map (some []), ?_, by simp only [hx]; simp [mapElems]⟩
      rcases hk with hk | hk <;>
        simp [hk, hl, TfVal.vkind, hvt, embedGuard_plain info _ _ he, writeField_plain info _ _ he, known]
    | false =>
      -- every source entry has a rendered element; keys correspond one to one
      have hsome : ∀ kv ∈ mapElems x, ((es.getD []).lookup kv.1).isSome = true := by
        intro kv hkv
        have := List.all_eq_true.mp hall kv hkv
        cases hlk : (es.getD []).lookup kv.1 with
        | none => simp [hlk] at this
        | some v => rfl
      obtain ⟨hnd2, hkeys⟩ := keys_match (mapElems x) (es.getD []) hnd hsome hlen
      have hsrc : ∀ kv ∈ es.getD [], ∃ e, (mapElems x).lookup kv.1 = some e ∧ T e ∧ R e kv.2 = true := by
        intro kv hkv
        obtain ⟨xe, hxe, hk1⟩ := List.mem_map.mp (hkeys kv hkv)
        have hlx := lookup_of_mem_nodup (mapElems x) xe.1 xe.2 hnd hxe
        have := List.all_eq_true.mp hall xe hxe
        have hle := lookup_of_mem_nodup (es.getD []) kv.1 kv.2 hnd2 hkv
        rw [hk1] at this hlx
        simp only [hle] at this
        exact ⟨xe.2, hlx, hT xe hxe, this⟩
      obtain ⟨ys, hrun, hlen2, hall2, _⟩ := fromElemsMap_reads (fromElemBody rec ov info (mv.getD info)) T R Q hb (mapElems x)
        st.diags st.hooks (es.getD []) [] hnd2 (by intro kv _; simp [List.lookup]) hsrc
      refine ⟨.map (some ys), ?_, ?_⟩
      · rcases hk with hk | hk <;>
          simp [hk, hl, TfVal.vkind, hvt, embedGuard_plain info _ _ he, writeField_plain info _ _ he, known, hrun,
            setField_setField_same]
      · have hml : mapElems (GoVal.map (some ys)) = ys := rfl
        simp only [hml, Bool.and_eq_true, beq_iff_eq, List.all_eq_true]
        refine ⟨by simp at hlen2; omega, ?_⟩
        intro xe hxe
        -- the source key is an attribute key
        have hmem : xe.1 ∈ (es.getD []).map (·.1) := by
          have := hsome xe hxe
          cases hlk : (es.getD []).lookup xe.1 with
          | none => simp [hlk] at this
          | some v => exact mem_keys_of_lookup _ _ _ hlk
        obtain ⟨kv, hkv, hk1⟩ := List.mem_map.mp hmem
        obtain ⟨e, y, hxl, hyl, hq⟩ := hall2 kv hkv
        have hlx := lookup_of_mem_nodup (mapElems x) xe.1 xe.2 hnd hxe
        rw [hk1] at hxl hyl
        rw [hlx] at hxl
        injection hxl with hxl
        subst hxl
        simp [hyl, hq]
  | prim _ _ _ _ => simp [mapRenders] at hr
  | obj _ _ _ _ => simp [mapRenders] at hr
  | list _ _ _ _ => simp [mapRenders] at hr
  | nilv => simp [mapRenders] at hr
  | foreign _ => simp [mapRenders] at hr

-- ------------------------------------------------------------------------------------------------------
-- the induction over the IR

theorem nfEqFields_of_valNfEq : ∀ (fs : List Field) (a b : GoVal),
    (∀ f ∈ fs, f.info.oneOfName = "" ∧ valNfEq f (getVal f.info a) (getVal f.info b) = true) → nfEqFields fs a b = true
  | [], _, _, _ => by simp [nfEqFields]
  | f :: rest, a, b, h => by
    unfold nfEqFields
    obtain ⟨ho, hv⟩ := h f (by simp)
    rw [nfEqField_eq_valNfEq f a b ho, hv, nfEqFields_of_valNfEq rest a b (fun g hg => h g (by simp [hg]))]
    rfl

theorem rtoks_oneof : ∀ (fs : List Field) (obj : GoVal), RTOKs fs obj → ∀ f ∈ fs, f.info.oneOfName = ""
  | [], _, _, f, hf => by simp at hf
  | g :: rest, obj, h, f, hf => by
    unfold RTOKs at h
    simp only [List.mem_cons] at hf
    rcases hf with rfl | hf
    · obtain ⟨info, mv, msg, sub⟩ := f
      have := h.1
      unfold RTOK at this
      exact this.1
    · exact rtoks_oneof rest obj h.2.2 f hf

mutual

theorem fromField_reads (ov : List (String × String)) : ∀ (f : Field) (obj : GoVal) (attrs : Option (List (String × TfVal)))
    (st : FromSt) (a : TfVal),
    (attrs.getD []).lookup f.info.nameSnake = some a → rendersVal f obj a = true → RTOK f obj → f.info.isPlaceholder = false →
    ∃ y, copyFromField ov f attrs st = .ok { st with obj := st.obj.setField f.info.name y } ∧
      valNfEq f (getVal f.info obj) y = true
  | ⟨info, mv, msg, sub⟩, obj, attrs, st, a, hl, hr, hok, hph => by
    simp only at hl hph
    unfold RTOK at hok
    obtain ⟨ho, he, hem, _, hok⟩ := hok
    have hrec : RecReads (fun as s => copyFromFields ov sub as { s with obj := resetOneOfs ((msg.map (·.oneOfNames)).getD []) s.obj }) sub (fun s => RTOKs sub s) := by
      intro s as ds hs hR hP
      obtain ⟨o, hrun, hso, hall, _⟩ := fromFields_reads ov sub s as
        { obj := resetOneOfs ((msg.map (·.oneOfNames)).getD []) (.struct []), diags := ds, hooks := hs } hR hP
        (isStruct_resetOneOfs _ _ trivial)
      refine ⟨o, hrun, hso, ?_⟩
      exact nfEqFields_of_valNfEq sub s o (fun f hf => ⟨rtoks_oneof sub s hP f hf, hall f hf⟩)
    simp only [copyFromField]
    unfold rendersVal at hr
    unfold valNfEq
    cases hk : info.kind with
    | primitive =>
      simp only [hk, hph, Bool.false_eq_true, if_false] at hok hr ⊢
      have hnn : (info.parentIsOptionalEmbed && parentIsNil info obj) = false := by simp [he]
      simp only [hnn, Bool.false_eq_true, if_false] at hr
      rcases hok with hp | ⟨k, hrt, hvt, hx⟩
      · exact absurd hp (by simp)
      · exact fieldWith_prim _ ov info mv msg attrs st a _ hk ho he k hrt hvt hx hl hr
    | object =>
      simp only [hk] at hok hr ⊢
      exact fieldWith_obj _ ov info mv msg sub attrs st a _ _ hrec hk ho he hem hok.1 hok.2 hl hr
    | primitiveList =>
      simp only [hk] at hok hr ⊢
      obtain ⟨hvt, _, k, hrt, hT⟩ := hok
      exact fieldWith_list _ ov info mv msg attrs st a _ _ _ _ (elemReads_prim _ ov info info k hrt hrt.ek (Or.inl hk))
        (Or.inl hk) ho he hvt hT hl hr
    | objectList =>
      simp only [hk] at hok hr ⊢
      obtain ⟨hvt, hev, hT⟩ := hok
      exact fieldWith_list _ ov info mv msg attrs st a _ _ _ _ (elemReads_obj _ ov info info sub _ hrec hev (Or.inl hk))
        (Or.inr hk) ho he hvt hT hl hr
    | primitiveMap =>
      simp only [hk] at hok hr ⊢
      obtain ⟨hvt, _, hev, hnd, k, hrt, hT⟩ := hok
      have hb := elemReads_prim (fun as s => copyFromFields ov sub as { s with obj := resetOneOfs ((msg.map (·.oneOfNames)).getD []) s.obj })
        ov info (mv.getD info) k hrt (by rw [hev]; exact hrt.ek) (Or.inr hk)
      exact fieldWith_map _ ov info mv msg attrs st a _ _ _ _ hb (Or.inl hk) ho he hvt hnd hT hl hr
    | objectMap =>
      simp only [hk] at hok hr ⊢
      obtain ⟨hvt, hev, hnd, hT⟩ := hok
      exact fieldWith_map _ ov info mv msg attrs st a _ _ _ _ (elemReads_obj _ ov info (mv.getD info) sub _ hrec hev (Or.inr hk))
        (Or.inr hk) ho he hvt hnd hT hl hr
    | custom =>
      simp only [hk] at hok

theorem fromFields_reads (ov : List (String × String)) : ∀ (fs : List Field) (obj : GoVal) (attrs : Option (List (String × TfVal)))
    (st : FromSt), rendersFields fs obj (attrs.getD []) = true → RTOKs fs obj → IsStruct st.obj →
    ∃ o, copyFromFields ov fs attrs st = .ok { st with obj := o } ∧ IsStruct o ∧
      (∀ f ∈ fs, valNfEq f (getVal f.info obj) (getVal f.info o) = true) ∧
      (∀ name, name ∉ fs.map (·.info.name) → o.field? name = st.obj.field? name)
  | [], _, _, st, _, _, hs => ⟨st.obj, by simp [copyFromFields], hs, by simp, by simp⟩
  | f :: rest, obj, attrs, st, hR, hok, hs => by
    unfold RTOKs at hok
    obtain ⟨hf, hnotin, hrest⟩ := hok
    unfold rendersFields at hR
    simp only [Bool.and_eq_true] at hR
    obtain ⟨hRf, hRrest⟩ := hR
    have hfo : f.info.oneOfName = "" ∧ f.info.parentIsOptionalEmbed = false ∧ (f.info.isPlaceholder = true → f.info.kind = .primitive) := by
      obtain ⟨info, mv, msg, sub⟩ := f
      unfold RTOK at hf
      exact ⟨hf.1, hf.2.1, hf.2.2.2.1⟩
    simp only [copyFromFields]
    by_cases hph : f.info.isPlaceholder = true
    · -- the placeholder is skipped
      simp only [hph, if_true]
      obtain ⟨o, hrun, hso, hall, hframe⟩ := fromFields_reads ov rest obj attrs st hRrest hrest hs
      refine ⟨o, hrun, hso, ?_, ?_⟩
      · intro g hg
        simp only [List.mem_cons] at hg
        rcases hg with rfl | hg
        · obtain ⟨info, mv, msg, sub⟩ := g
          simp only at hph hfo
          unfold valNfEq
          simp [hfo.2.2 hph, hph]
        · exact hall g hg
      · intro name hname
        exact hframe name (by simp only [List.map_cons, List.mem_cons, not_or] at hname; exact hname.2)
    · have hph' : f.info.isPlaceholder = false := by simpa using hph
      simp only [hph', Bool.false_eq_true, if_false]
      cases hla : (attrs.getD []).lookup f.info.nameSnake with
      | none => simp [hla] at hRf
      | some a =>
        simp only [hla] at hRf
        obtain ⟨y, hrun, hv⟩ := fromField_reads ov f obj attrs st a hla hRf hf hph'
        simp only [hrun]
        obtain ⟨o, hrun2, hso, hall, hframe⟩ := fromFields_reads ov rest obj attrs
          { st with obj := st.obj.setField f.info.name y } hRrest hrest (isStruct_setField _ _ _ hs)
        refine ⟨o, hrun2, hso, ?_, ?_⟩
        · intro g hg
          simp only [List.mem_cons] at hg
          rcases hg with rfl | hg
          · -- later fields do not touch this field
            rw [getVal_plain g.info o hfo.1 hfo.2.1, hframe g.info.name hnotin,
              field?_setField_same _ _ _ hs]
            exact hv
          · exact hall g hg
        · intro name hname
          simp only [List.map_cons, List.mem_cons, not_or] at hname
          rw [hframe name hname.2]
          exact field?_setField_other _ _ _ _ hname.1

end

end PGT
