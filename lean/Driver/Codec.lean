import Lean.Data.Json
import PGT.Model.Schema
import PGT.Model.CopyTo
import PGT.Model.CopyFrom
import PGT.Generated.Texts
/-
JSON codec of the line protocol (DESIGN.md §5.3): abstract case, ops, Go values, Terraform values, results.
-/
open Lean

namespace PGT.Codec

abbrev P := Except String

def fld (j : Json) (k : String) : P Json := j.getObjVal? k
def str (j : Json) (k : String) : P String := do (← fld j k).getStr?
def strD (j : Json) (k : String) (d : String := "") : String := match j.getObjVal? k with | .ok (.str s) => s | _ => d
def boolD (j : Json) (k : String) : Bool := match j.getObjVal? k with | .ok (.bool b) => b | _ => false
def arrD (j : Json) (k : String) : Array Json := match j.getObjVal? k with | .ok (.arr a) => a | _ => #[]
def optStr (j : Json) (k : String) : Option String := match j.getObjVal? k with | .ok (.str s) => some s | _ => none
def natD (j : Json) (k : String) : Nat := match j.getObjVal? k with | .ok (.num n) => n.mantissa.toNat | _ => 0
def strList (j : Json) (k : String) : List String := (arrD j k).toList.filterMap fun x => match x with | .str s => some s | _ => none

def kvList (j : Json) (k : String) : List (String × String) :=
  (arrD j k).toList.map fun e => (strD e "k", strD e "v")

def kvsList (j : Json) (k : String) : List (String × List String) :=
  (arrD j k).toList.map fun e => (strD e "k", strList e "v")

def parseField (j : Json) : FieldD :=
  { name := strD j "name", number := natD j "number", type := strD j "type", typeName := strD j "typeName",
    card := match strD j "card" with | "repeated" => .repeated | "map" => .map | _ => .single,
    mapKey := strD j "mapKey" "string", nullable := strD j "nullable", embed := boolD j "embed",
    jsonTag := optStr j "jsonTag", castType := strD j "castType", customType := strD j "customType",
    stdTime := boolD j "stdTime", stdDuration := boolD j "stdDuration",
    oneof := match j.getObjVal? "oneof" with | .ok (.num n) => if n.mantissa < 0 then none else some n.mantissa.toNat | _ => none,
    comment := optStr j "comment" }

def parseMsg (j : Json) : MsgD :=
  { name := strD j "name", comment := optStr j "comment", oneofs := strList j "oneofs",
    fields := (arrD j "fields").toList.map parseField }

def parseFile (j : Json) : FileD :=
  { name := strD j "name", package := strD j "package", messages := (arrD j "messages").toList.map parseMsg,
    enums := (arrD j "enums").toList.map fun e => { name := strD e "name", values := [] } }

def parseSchemaType (j : Json) (k : String) : Option SchemaTypeC :=
  match j.getObjVal? k with
  | .ok (.obj o) =>
    let x := Json.obj o
    some { type := strD x "type", valueType := strD x "valueType", castToType := strD x "castToType",
           castFromType := strD x "castFromType", typeConstructor := strD x "typeConstructor" }
  | _ => none

def parseInjected (j : Json) : InjectedField :=
  { name := strD j "name", type := strD j "type", required := boolD j "required", computed := boolD j "computed",
    optional := boolD j "optional", planModifiers := strList j "planModifiers", validators := strList j "validators" }

def parseConfig (j : Json) : Config :=
  { types := strList j "types", durationCustomType := strD j "durationCustomType", excludeFields := strList j "excludeFields",
    targetPackageName := strD j "targetPackageName", defaultPackageName := strD j "defaultPackageName", sort := boolD j "sort",
    useStateForUnknownByDefault := boolD j "useStateForUnknownByDefault", computedFields := strList j "computedFields",
    requiredFields := strList j "requiredFields", sensitiveFields := strList j "sensitiveFields",
    suffixes := kvList j "suffixes", nameOverrides := kvList j "nameOverrides", validators := kvsList j "validators",
    planModifiers := kvsList j "planModifiers", timeType := parseSchemaType j "timeType",
    durationType := parseSchemaType j "durationType",
    injectedFields := (arrD j "injectedFields").toList.map fun e => (strD e "k", (arrD e "v").toList.map parseInjected),
    importPathOverrides := kvList j "importPathOverrides", customTypes := kvList j "customTypes" }

def parseCase (j : Json) : P Case := do
  let r ← fld j "request"
  let req : Request := { deps := (arrD r "deps").toList.map parseFile, file := parseFile (← fld r "file") }
  let ys := strD j "yamlState"
  -- "blank:*": the file named by `config` exists and holds no YAML document (empty, comments only, blank lines): read as {}
  let yaml := if ys.startsWith "blank" then {} else
    match j.getObjVal? "yaml" with | .ok (.obj o) => parseConfig (.obj o) | _ => {}
  let st := if ys.startsWith "garbage" then YamlState.garbage else
    match ys with | "none" => YamlState.none | "missing" => .missing | _ => .ok
  pure { request := req, yaml := yaml, yamlState := st, cli := kvList j "cli" }

-- hex ---------------------------------------------------------------------------------------------------

def hexVal (c : Char) : Nat :=
  if '0' ≤ c && c ≤ '9' then c.toNat - 48 else if 'a' ≤ c && c ≤ 'f' then c.toNat - 87 else if 'A' ≤ c && c ≤ 'F' then c.toNat - 55 else 0

def unhex (s : String) : List UInt8 :=
  let rec go : List Char → List UInt8
    | a :: b :: rest => UInt8.ofNat (hexVal a * 16 + hexVal b) :: go rest
    | _ => []
  go s.toList

def hexDigit (n : Nat) : Char := if n < 10 then Char.ofNat (48 + n) else Char.ofNat (87 + n)

def hex (l : List UInt8) : String :=
  String.ofList (l.flatMap fun b => [hexDigit (b.toNat / 16), hexDigit (b.toNat % 16)])

def natOfStr (j : Json) : Nat := match j with | .str s => s.toNat?.getD 0 | .num n => n.mantissa.toNat | _ => 0

-- Go values ---------------------------------------------------------------------------------------------

partial def parseGo (j : Json) : P GoVal :=
  match j with
  | .obj o =>
    match o.toList with
    | [(k, x)] =>
      match k with
      | "t" => do pure (.sc (.time (← x.getStr?)))
      | "y" => match x with | .null => pure (.sc (.bytes none)) | .str s => pure (.sc (.bytes (some (unhex s)))) | _ => throw "bad y"
      | "b" => do pure (.sc (.b (← x.getBool?)))
      | "s" => do pure (.sc (.str (unhex (← x.getStr?))))
      | "w32" => pure (.sc (.w32 (BitVec.ofNat 32 (natOfStr x))))
      | "w64" => pure (.sc (.w64 (BitVec.ofNat 64 (natOfStr x))))
      | "f32" => pure (.sc (.f32 (BitVec.ofNat 32 (natOfStr x))))
      | "f64" => pure (.sc (.f64 (BitVec.ofNat 64 (natOfStr x))))
      | "P" => match x with | .null => pure (.ptr none) | _ => do pure (.ptr (some (← parseGo x)))
      | "L" => match x with
        | .null => pure (.slice none)
        | .arr a => do pure (.slice (some (← a.toList.mapM parseGo)))
        | _ => throw "bad L"
      | "M" => match x with
        | .null => pure (.map none)
        | .obj m => do pure (.map (some (← m.toList.mapM fun (k, v) => do pure (k, ← parseGo v))))
        | _ => throw "bad M"
      | "O" => match x with
        | .null => pure (.iface none)
        | _ => do pure (.iface (some (← str x "w", ← str x "f", ← parseGo (← fld x "v"))))
      | "S" => match x with
        | .obj m => do pure (.struct (← m.toList.mapM fun (k, v) => do pure (k, ← parseGo v)))
        | _ => throw "bad S"
      | _ => throw s!"unknown Go value tag {k}"
    | _ => throw "Go value node must have exactly one key"
  | _ => throw "Go value must be an object"

def Sc.isZero : Sc → Bool
  | .b v => !v | .str v => v.isEmpty | .bytes v => v.isNone | .w32 v => v == 0 | .w64 v => v == 0
  | .f32 v => v == 0 | .f64 v => v == 0 | .time t => t == "zero"

def encSc : Sc → Json
  | .b v => Json.mkObj [("b", .bool v)]
  | .str v => Json.mkObj [("s", .str (hex v))]
  | .bytes none => Json.mkObj [("y", .null)]
  | .bytes (some v) => Json.mkObj [("y", .str (hex v))]
  | .w32 v => Json.mkObj [("w32", .str (toString v.toNat))]
  | .w64 v => Json.mkObj [("w64", .str (toString v.toNat))]
  | .f32 v => Json.mkObj [("f32", .str (toString v.toNat))]
  | .f64 v => Json.mkObj [("f64", .str (toString v.toNat))]
  | .time t => Json.mkObj [("t", .str t)]

mutual
/-- canonical rendering; `canon = true` drops struct fields that hold the Go zero value -/
partial def encGo (canon : Bool) (v : GoVal) : Json :=
  match v with
  | .sc s => encSc s
  | .ptr none => Json.mkObj [("P", .null)]
  | .ptr (some x) => Json.mkObj [("P", encGo canon x)]
  | .slice none => Json.mkObj [("L", .null)]
  | .slice (some l) => Json.mkObj [("L", .arr (l.map (encGo canon)).toArray)]
  | .map none => Json.mkObj [("M", .null)]
  | .map (some l) => Json.mkObj [("M", Json.mkObj (l.map fun (k, x) => (k, encGo canon x)))]
  | .iface none => Json.mkObj [("O", .null)]
  | .iface (some (w, f, x)) => Json.mkObj [("O", Json.mkObj [("w", .str w), ("f", .str f), ("v", encGo canon x)])]
  | .struct fs =>
    let fs := if canon then fs.filter (fun (_, x) => !isZeroGo x) else fs
    Json.mkObj [("S", Json.mkObj (fs.map fun (k, x) => (k, encGo canon x)))]

partial def isZeroGo (v : GoVal) : Bool :=
  match v with
  | .sc s => Sc.isZero s
  | .ptr o => o.isNone
  | .slice o => o.isNone
  | .map o => o.isNone
  | .iface o => o.isNone
  | .struct fs => fs.all fun (_, x) => isZeroGo x
end

-- Terraform types and values ----------------------------------------------------------------------------

partial def parseTy (j : Json) : P (Option TfTy) :=
  match j with
  | .null => pure none
  | .str "String" => pure (some (.prim .string))
  | .str "Int64" => pure (some (.prim .int64))
  | .str "Float64" => pure (some (.prim .float64))
  | .str "Bool" => pure (some (.prim .bool))
  | .str "Time" => pure (some (.prim .time))
  | .str "Duration" => pure (some (.prim .duration))
  | .str s => pure (some (.other s))
  | .obj o =>
    match o.toList with
    | [("list", e)] => do pure (some (.list (← parseTy e)))
    | [("map", e)] => do pure (some (.map (← parseTy e)))
    | [("obj", .null)] => pure (some (.obj none))
    | [("obj", .obj m)] => do
        let as ← m.toList.mapM fun (k, v) => do
          match ← parseTy v with
          | some t => pure (k, t)
          | none => pure (k, TfTy.other "nil")
        pure (some (.obj (some as)))
    | [("other", .str s)] => pure (some (.other s))
    | _ => throw "bad type"
  | _ => throw "bad type"

partial def encTy : Option TfTy → Json
  | none => .null
  | some (.prim .string) => .str "String"
  | some (.prim .int64) => .str "Int64"
  | some (.prim .float64) => .str "Float64"
  | some (.prim .bool) => .str "Bool"
  | some (.prim .time) => .str "Time"
  | some (.prim .duration) => .str "Duration"
  | some (.list e) => Json.mkObj [("list", encTy e)]
  | some (.map e) => Json.mkObj [("map", encTy e)]
  | some (.obj none) => Json.mkObj [("obj", .null)]
  | some (.obj (some as)) => Json.mkObj [("obj", Json.mkObj (as.map fun (k, t) => (k, encTy (some t))))]
  | some (.other "nil") => .null
  | some (.other s) => Json.mkObj [("other", .str s)]

def parseAtys (j : Json) : P (Option (List (String × TfTy))) :=
  match j with
  | .null => pure none
  | .obj m => do
    let as ← m.toList.mapM fun (k, v) => do
      match ← parseTy v with
      | some t => pure (k, t)
      | none => pure (k, TfTy.other "nil")
    pure (some as)
  | _ => throw "bad attr types"

def encAtys : Option (List (String × TfTy)) → Json
  | none => .null
  | some as => Json.mkObj (as.map fun (k, t) => (k, encTy (some t)))

partial def parseTf (j : Json) : P TfVal := do
  let k ← str j "k"
  let u := boolD j "u"
  let n := boolD j "n"
  match k with
  | "nil" => pure .nilv
  | "foreign" => pure (.foreign (strD j "tag"))
  | "String" => pure (.prim .string u n (.str (unhex (strD j "v"))))
  | "Int64" => pure (.prim .int64 u n (.w64 (BitVec.ofNat 64 (natOfStr (← fld j "v")))))
  | "Float64" => pure (.prim .float64 u n (.f64 (BitVec.ofNat 64 (natOfStr (← fld j "v")))))
  | "Bool" => pure (.prim .bool u n (.b (boolD j "v")))
  | "Time" => pure (.prim .time u n (.time (strD j "v")))
  | "Duration" => pure (.prim .duration u n (.w64 (BitVec.ofNat 64 (natOfStr (← fld j "v")))))
  | "List" =>
    let ety ← parseTy (← fld j "ety")
    match ← fld j "e" with
    | .null => pure (.list u n none ety)
    | .arr a => do pure (.list u n (some (← a.toList.mapM parseTf)) ety)
    | _ => throw "bad list elems"
  | "Map" =>
    let ety ← parseTy (← fld j "ety")
    match ← fld j "e" with
    | .null => pure (.map u n none ety)
    | .obj m => do pure (.map u n (some (← m.toList.mapM fun (k, v) => do pure (k, ← parseTf v))) ety)
    | _ => throw "bad map elems"
  | "Object" =>
    let atys ← parseAtys (← fld j "aty")
    match ← fld j "a" with
    | .null => pure (.obj u n none atys)
    | .obj m => do pure (.obj u n (some (← m.toList.mapM fun (k, v) => do pure (k, ← parseTf v))) atys)
    | _ => throw "bad object attrs"
  | _ => throw s!"unknown value kind {k}"

partial def encTf (v : TfVal) : Json :=
  let hd (k : String) (u n : Bool) : List (String × Json) := [("k", .str k), ("u", .bool u), ("n", .bool n)]
  match v with
  | .nilv => Json.mkObj [("k", .str "nil")]
  | .foreign t => Json.mkObj [("k", .str "foreign"), ("tag", .str t)]
  | .prim k u n p =>
    let (name, pv) : String × Json :=
      match k, p with
      | .string, .str s => ("String", .str (hex s))
      | .int64, .w64 x => ("Int64", .str (toString x.toNat))
      | .float64, .f64 x => ("Float64", .str (toString x.toNat))
      | .bool, .b x => ("Bool", .bool x)
      | .time, .time t => ("Time", .str t)
      | .duration, .w64 x => ("Duration", .str (toString x.toNat))
      | _, _ => ("ill-typed", .null)
    Json.mkObj (hd name u n ++ [("v", pv)])
  | .list u n es ety =>
    Json.mkObj (hd "List" u n ++ [("e", match es with | none => .null | some l => .arr (l.map encTf).toArray), ("ety", encTy ety)])
  | .map u n es ety =>
    Json.mkObj (hd "Map" u n ++ [("e", match es with | none => .null | some l => Json.mkObj (l.map fun (k, x) => (k, encTf x))), ("ety", encTy ety)])
  | .obj u n as atys =>
    Json.mkObj (hd "Object" u n ++ [("a", match as with | none => .null | some l => Json.mkObj (l.map fun (k, x) => (k, encTf x))), ("aty", encAtys atys)])

-- diagnostics ---------------------------------------------------------------------------------------------

/-- the format string inside `fmt.Sprintf("…", args…)` -/
def sprintfFormat (expr : String) : String :=
  let l := expr.toList
  let afterQuote := (l.dropWhile (· != '"')).drop 1
  String.ofList (afterQuote.takeWhile (· != '"'))

/-- substitute `%v` / `%s` left to right -/
def subst : List Char → List String → List Char
  | '%' :: c :: rest, a :: as => if c == 'v' || c == 's' then a.toList ++ subst rest as else '%' :: c :: subst rest (a :: as)
  | c :: rest, as => c :: subst rest as
  | [], _ => []

def diagText (typ : String) (args : List String) : String :=
  match Generated.diagTypes.find? (·.1 == typ) with
  | some (_, _, summary, detail) => "E|" ++ summary ++ "|" ++ String.ofList (subst (sprintfFormat detail).toList args)
  | none => "E|?|?"

def encDiag : Diag → String
  | .readMissing p => diagText "attrReadMissingDiag" [p]
  | .readConv p t => diagText "attrReadConversionFailureDiag" [p, t]
  | .writeMissing p => diagText "attrWriteMissingDiag" [p]
  | .writeConv p t => diagText "attrWriteConversionFailureDiag" [p, t]
  | .writeGeneral p => diagText "attrWriteGeneralError" [p, "?"]

def encDiags (ds : List Diag) : Json :=
  let ss := (ds.map encDiag).eraseDups
  .arr ((ss.toArray.qsort (· < ·)).map Json.str)

def encHook : HookCall → Json
  | .copyTo fn obj ty cur => Json.mkObj [("fn", .str fn), ("obj", encGo false obj), ("ty", encTy ty), ("cur", encTf cur)]
  | .copyFrom fn a => Json.mkObj [("fn", .str fn), ("a", encTf a)]

-- schema ------------------------------------------------------------------------------------------------

def poolToken (s : String) : String :=
  if s == "verifharness/tfx.UseMockValidator()" then "mock"
  else if s == "verifharness/tfx.UseOtherValidator()" then "other"
  else if s == "github.com/hashicorp/terraform-plugin-framework/tfsdk.UseStateForUnknown()" then "USFU"
  else if s == "github.com/hashicorp/terraform-plugin-framework/tfsdk.RequiresReplace()" then "RR"
  else s

partial def encSAttr : SAttr → Json
  | .mk req opt comp sens desc ty nest attrs vals pms sfx =>
    Json.mkObj [("req", .bool req), ("opt", .bool opt), ("comp", .bool comp), ("sens", .bool sens), ("desc", .str desc),
      ("ty", encTy (some ty)), ("nest", .str nest),
      ("attrs", if nest == "none" then .null else Json.mkObj (attrs.map fun (k, a) => (k, encSAttr a))),
      ("val", .arr (vals.map (fun s => Json.str (poolToken s))).toArray),
      ("pm", .arr (pms.map (fun s => Json.str (poolToken s))).toArray),
      ("custom", .str sfx)]

end PGT.Codec
