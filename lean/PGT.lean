import PGT.Model.Strings
import PGT.Model.Descriptor
import PGT.Model.Config
import PGT.Model.IR
