import Driver.Codec
import PGT.Model.Spec
/-
Model driver: `pgtmodel <case.json>` reads op lines on stdin and prints one canonical result per line.
-/
open Lean PGT PGT.Codec

structure Ctx where
  cfg : Config
  roots : List Msg
  c : Case

def findRoot (ctx : Ctx) (name : String) : Option Msg := ctx.roots.find? (·.info.name == name)

def outcomeJson {α} (o : Outcome α) (f : α → List (String × Json)) : Json :=
  match o with
  | .ok a => Json.mkObj ([("panic", Json.null)] ++ f a)
  | .panic w => Json.mkObj [("panic", .str w)]
  | .stuck w => Json.mkObj [("stuck", .str w)]

def toJson (r : Outcome ToResult) : Json :=
  outcomeJson r fun x => [("diags", encDiags x.diags), ("tf", encTf x.tf), ("hooks", .arr (x.hooks.map encHook).toArray)]

def fromJson (r : Outcome FromResult) : Json :=
  outcomeJson r fun x => [("diags", encDiags x.diags), ("obj", encGo true x.obj), ("hooks", .arr (x.hooks.map encHook).toArray)]

def emptyObj (m : Msg) : TfVal := .obj false false none (some (attrTypesOf m))

def objArg (m : Msg) (j : Json) : Except String TfVal :=
  match j with
  | .str "empty" => pure (emptyObj m)
  | _ => parseTf j

def structArg (j : Json) : Except String GoVal :=
  match j with
  | .str "zero" => pure (.struct [])
  | _ => parseGo j

/-- pseudo diagnostics list for the spec predicates: only emptiness matters there -/
def diagsOf (j : Json) : List Diag := if (arrD j "diags").isEmpty then [] else [Diag.writeGeneral "impl"]

def diagStrings (j : Json) : List String := strList j "diags"

def panicked (j : Json) : Bool := match j.getObjVal? "panic" with | .ok .null => false | .ok _ => true | .error _ => true

def tfOf (j : Json) : Except String TfVal := do parseTf (← fld j "tf")
def objOf (j : Json) : Except String GoVal := do parseGo (← fld j "obj")

def trigList (l : List (String × Bool)) : Json := .arr ((l.filter (·.2)).map (fun x => Json.str x.1)).toArray

mutual
/-- no unknown value that Terraform can see: as `Spec.noUnknownDeep`, but the content kept under a null object / list / map
is not looked at (`ToTerraformValue` of a null value ignores `Attrs` / `Elems`) -/
partial def noUnknownVisible (skip : List String) : TfVal → Bool
  | .prim _ u _ _ => !u
  | .list u n es _ => !u && (n || (es.getD []).all (noUnknownVisible skip))
  | .map u n es _ => !u && (n || (es.getD []).all fun kv => noUnknownVisible [] kv.2)
  | .obj u n as _ => !u && (n || (as.getD []).all fun kv => skip.contains kv.1 || noUnknownVisible skip kv.2)
  | _ => false
end

/-- evaluate the property predicates of `PGT.Spec` (and the triggers of the known findings) on a result
produced by the real generated code -/
def checkOp (ctx : Ctx) (orig impl : Json) : Except String Json := do
  let ty ← str orig "type"
  let tag := strD orig "tag"
  match findRoot ctx ty with
  | none => return Json.mkObj [("error", .str ("unknown type " ++ ty))]
  | some m =>
    let b (x : Bool) : Json := .bool x
    let res (checks : List (String × Json)) (trig : List (String × Bool)) : Json :=
      Json.mkObj [("checks", Json.mkObj checks), ("triggers", trigList trig)]
    match tag with
    | "to-empty" =>
      let obj ← structArg (← fld orig "obj")
      let trig := [("F1b", Spec.Trig.f1b m obj), ("F5", Spec.Trig.f5 m obj)]
      if panicked impl then return res [("C03", b false), ("C20", b false), ("C07", b false), ("C02", b false)] trig
      let tf ← tfOf impl
      let renders := match tf with | .obj _ _ as _ => Spec.rendersFields m.fields obj (as.getD []) | _ => false
      return res [("C03", b (Spec.c03Check m false (diagsOf impl) tf)), ("C20", b (Spec.c20Check m obj tf)),
                  ("C07", b (Spec.c07ToCheck m obj tf)), ("C02", b renders)] trig
    | "rt" =>
      let steps := arrD impl "steps"
      let origObj ← structArg (← fld ((arrD orig "steps")[0]!) "obj")
      let mut trig := [("F1b", Spec.Trig.f1b m origObj), ("F5", Spec.Trig.f5 m origObj)]
      if steps.size ≥ 1 && !panicked steps[0]! then
        let tf0 ← tfOf steps[0]!
        trig := trig ++ [("F2", Spec.Trig.f2 m tf0 (.struct []))]
      if steps.size < 2 || steps.any panicked || steps.any (fun s => !(arrD s "diags").isEmpty) then
        return res [("C04", b false), ("C19", b false)] trig
      let back ← objOf steps[1]!
      let ok := Spec.c04Check m origObj back
      return res [("C04", b ok), ("C19", b ok)] trig
    | "from" | "from-payload" =>
      let tf ← objArg m (← fld orig "tf")
      let prior ← structArg (← fld orig "prior")
      let trig := [("F2", Spec.Trig.f2 m tf prior), ("F3", Spec.Trig.f3 m prior), ("F4", Spec.Trig.f4 tf), ("F7", Spec.Trig.f7 m prior)]
      if panicked impl then return res [("C05", b false), ("C07", b false)] trig
      let r ← objOf impl
      return res [("C05", b (Spec.c05Check m tf false (diagsOf impl) r)), ("C07", b (Spec.c07FromCheck m tf r))] trig
    | "from-malformed" =>
      let tf ← objArg m (← fld orig "tf")
      let prior ← structArg (← fld orig "prior")
      let trig := [("F2", Spec.Trig.f2 m tf prior)]
      if panicked impl then return res [("C06", b false)] trig
      let expected := match tf with | .obj _ _ as _ => (Spec.c06FromLevel m.fields (as.getD [])).map encDiag | _ => []
      -- every depth: the diagnostics C06 demands, as a set of (kind, path); each must be reported and nothing else
      let deep := match tf with | .obj _ _ as _ => Spec.c06Fields m.fields (as.getD []) | _ => []
      let actual := diagStrings impl
      let hit (e : String × String) (s : String) : Bool :=
        if e.1 == "missing" then s == encDiag (.readMissing e.2) else s.startsWith (encDiag (.readConv e.2 ""))
      let deepOK := deep.all (fun e => actual.any (hit e)) && actual.all (fun s => deep.any (fun e => hit e s))
      return res [("C06", b (deepOK && expected.all fun d => actual.contains d))] trig
    | "to-malformed" =>
      let obj ← structArg (← fld orig "obj")
      let trig := [("F1b", Spec.Trig.f1b m obj)]
      if panicked impl then return res [("C06", b false)] trig
      let tfIn ← objArg m (← fld orig "tf")
      let tfOut ← tfOf impl
      let atys := match tfIn with | .obj _ _ _ atys => atys.getD [] | _ => []
      let expected := (Spec.c06ToLevel m.fields atys).map encDiag
      let written := Spec.c06ToCheck m tfIn false (Spec.c06ToLevel m.fields atys) tfOut
      return res [("C06", b (written && expected.all fun d => (diagStrings impl).contains d))] trig
    | "to-plan" =>
      -- an arbitrary typed struct copied into a decoded plan object: the statement of `C08_copyTo_step` / `C09_step`
      let obj ← structArg (← fld orig "obj")
      let trig := [("F1b", Spec.Trig.f1b m obj)]
      if panicked impl then return res [("C06", b false), ("C08", b false)] trig
      let plan ← objArg m (← fld orig "tf")
      let tfOut ← tfOf impl
      -- (what the user's hooks leave in custom-type attributes is theirs: skipped in the unknown test, as in `c08Check`)
      let ok := (arrD impl "diags").isEmpty &&
        noUnknownVisible (Spec.injectedNames m.fields m.info.injected ++ Spec.customNames m.fields) tfOut &&
        Spec.c09Follows m obj plan tfOut
      let pas := match plan with | .obj _ _ pas _ => pas.getD [] | _ => []
      let as := match tfOut with | .obj _ _ as _ => as.getD [] | _ => []
      let bad := (m.fields.filter fun f => !Spec.followsField f obj pas as).map (·.info.nameSnake)
      return Json.mkObj [("checks", Json.mkObj [("C06", b (arrD impl "diags").isEmpty), ("C08", b ok)]), ("triggers", trigList trig),
        ("notFollowing", .arr (bad.map Json.str).toArray)]
    | "echo" =>
      let steps := arrD impl "steps"
      let plan ← objArg m (← fld orig "tf")
      let mut trig := [("F2", Spec.Trig.f2 m plan (.struct [])), ("F5", Spec.Trig.f5Plan m plan)]
      if steps.size ≥ 1 && !panicked steps[0]! then
        trig := trig ++ [("F1b", Spec.Trig.f1b m (← objOf steps[0]!))]
      if steps.size < 3 || steps.any panicked then return res [("C08", b false)] trig
      let first ← objOf steps[0]!
      let echoed ← tfOf steps[1]!
      let second ← objOf steps[2]!
      return res [("C08", b ((steps.all fun s => (arrD s "diags").isEmpty) && Spec.c08Check m plan first echoed second))] trig
    | "refresh" =>
      let steps := arrD impl "steps"
      let osteps := arrD orig "steps"
      let mut ok := true
      let mut src : GoVal := .struct []
      let mut prevSrc : Option GoVal := none
      let mut prevTf : TfVal := emptyObj m
      let mut f1b := false
      let mut f6 := false
      if steps.size != osteps.size then ok := false
      for i in [0:osteps.size] do
        let o := osteps[i]!
        if strD o "do" == "to" then
          match o.getObjVal? "obj" with
          | .ok g =>
            prevSrc := if i == 0 then none else some src
            src ← structArg g
            f1b := f1b || Spec.Trig.f1b m src
            match prevSrc with
            | some p => f6 := f6 || Spec.Trig.f6 12 m.fields p src
            | none => pure ()
          | _ => pure ()
          if i < steps.size then
            let r := steps[i]!
            if panicked r then ok := false
            else
              let tf ← tfOf r
              let same := match o.getObjVal? "obj" with | .ok _ => false | _ => true
              ok := ok && Spec.c09StepCheck m src (diagsOf r) prevTf tf
              if same then ok := ok && TfVal.beq prevTf tf
              prevTf := tf
      return res [("C09", b ok)] [("F1b", f1b), ("F6", f6)]
    | _ => return res [] []

def runOp (ctx : Ctx) (op : Json) : Except String Json := do
  let kind ← str op "op"
  if kind == "check" then
    return ← checkOp ctx (← fld op "orig") (← fld op "impl")
  if kind == "cast" then
    let rep (s : String) : GoRep := match s with
      | "f32" => .f32 | "f64" => .f64 | "i32" => .i32 | "u32" => .u32 | "i64" => .i64 | "u64" => .u64 | _ => .str
    let from_ := rep (strD op "from")
    let to_ := rep (strD op "to")
    let bits := natOfStr (← fld op "bits")
    let x : Sc := match from_ with
      | .f32 => .f32 (BitVec.ofNat 32 bits) | .f64 => .f64 (BitVec.ofNat 64 bits)
      | .i32 | .u32 => .w32 (BitVec.ofNat 32 bits) | _ => .w64 (BitVec.ofNat 64 bits)
    let r : String := match conv from_ to_ x with
      | some (.f32 v) => toString v.toNat | some (.f64 v) => toString v.toNat
      | some (.w32 v) => toString v.toNat | some (.w64 v) => toString v.toNat
      | _ => "unsupported"
    return Json.mkObj [("bits", .str r)]
  if kind == "emit" then
    match emit ctx.c with
    | .fail e => return Json.mkObj [("fail", .str (reprStr e))]
    | .response f p fs ws => return Json.mkObj [("file", .str f), ("package", .str p), ("funcs", .arr (fs.map Json.str).toArray), ("failed", .arr (ws.map Json.str).toArray)]
  let ty ← str op "type"
  match findRoot ctx ty with
  | none => return Json.mkObj [("error", .str ("unknown type " ++ ty))]
  | some m =>
    let ov := ctx.cfg.importPathOverrides
    match kind with
    | "schema" =>
      return Json.mkObj [("attrs", Json.mkObj ((schemaOf m).map fun (k, a) => (k, encSAttr a)))]
    | "copyTo" =>
      let obj ← structArg (← fld op "obj")
      let tf ← objArg m (← fld op "tf")
      return toJson (copyTo m obj tf)
    | "copyFrom" =>
      let tf ← objArg m (← fld op "tf")
      let prior ← structArg (← fld op "prior")
      return fromJson (copyFrom ov m tf prior)
    | "seq" =>
      let mut tf ← objArg m (← fld op "tf")
      let mut obj ← structArg (← fld op "obj")
      let mut out : Array Json := #[]
      for st in arrD op "steps" do
        match strD st "do" with
        | "to" =>
          match st.getObjVal? "obj" with
          | .ok g => obj ← structArg g
          | _ => pure ()
          let r := copyTo m obj tf
          out := out.push (toJson r)
          match r with
          | .ok x => tf := x.tf
          | _ => break
        | "from" =>
          if strD st "prior" != "cur" then obj := .struct []
          let r := copyFrom ov m tf obj
          out := out.push (fromJson r)
          match r with
          | .ok x => obj := x.obj
          | _ => break
        | "peek" =>
          -- decode the current object into a fresh struct without changing the current struct
          let r := copyFrom ov m tf (.struct [])
          out := out.push (fromJson r)
          match r with
          | .ok _ => pure ()
          | _ => break
        | _ => throw "bad step"
      return Json.mkObj [("steps", .arr out)]
    | _ => return Json.mkObj [("error", .str "unknown op")]

partial def loop (ctx : Ctx) (h : IO.FS.Stream) (out : IO.FS.Stream) : IO Unit := do
  let line ← h.getLine
  if line.isEmpty then return ()
  if line.trimAscii.isEmpty then loop ctx h out else
  let res : Json :=
    match Json.parse line with
    | .error e => Json.mkObj [("modelError", .str e)]
    | .ok op =>
      match runOp ctx op with
      | .ok j => j
      | .error e => Json.mkObj [("modelError", .str e)]
  out.putStrLn res.compress
  loop ctx h out

def main (args : List String) : IO UInt32 := do
  match args with
  | [casePath] =>
    let txt ← IO.FS.readFile casePath
    match Json.parse txt >>= parseCase with
    | .error e => IO.eprintln s!"cannot read case: {e}"; return 2
    | .ok c =>
      let cfg := match readConfig c.yamlState c.yaml c.cli with | .ok cfg => cfg | .error _ => {}
      let (roots, _) := buildRoots cfg c.request
      let stdout ← IO.getStdout
      loop { cfg := cfg, roots := roots, c := c } (← IO.getStdin) stdout
      stdout.flush
      return 0
  | _ => IO.eprintln "usage: pgtmodel <case.json>"; return 2
