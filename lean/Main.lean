import Driver.Codec
/-
Model driver: `pgtmodel <case.json>` reads op lines on stdin and prints one canonical result per line.
-/
open Lean PGT PGT.Codec

structure Ctx where
  cfg : Config
  roots : List Msg
  c : Case

def findRoot (ctx : Ctx) (name : String) : Option Msg := ctx.roots.find? (·.info.name == name)

def outcomeJson {α} (o : Outcome α) (f : α → List (String × Json)) : Json :=
  match o with
  | .ok a => Json.mkObj ([("panic", Json.null)] ++ f a)
  | .panic w => Json.mkObj [("panic", .str w)]
  | .stuck w => Json.mkObj [("stuck", .str w)]

def toJson (r : Outcome ToResult) : Json :=
  outcomeJson r fun x => [("diags", encDiags x.diags), ("tf", encTf x.tf), ("hooks", .arr (x.hooks.map encHook).toArray)]

def fromJson (r : Outcome FromResult) : Json :=
  outcomeJson r fun x => [("diags", encDiags x.diags), ("obj", encGo true x.obj), ("hooks", .arr (x.hooks.map encHook).toArray)]

def emptyObj (m : Msg) : TfVal := .obj false false none (some (attrTypesOf m))

def objArg (m : Msg) (j : Json) : Except String TfVal :=
  match j with
  | .str "empty" => pure (emptyObj m)
  | _ => parseTf j

def structArg (j : Json) : Except String GoVal :=
  match j with
  | .str "zero" => pure (.struct [])
  | _ => parseGo j

def runOp (ctx : Ctx) (op : Json) : Except String Json := do
  let kind ← str op "op"
  if kind == "emit" then
    match emit ctx.c with
    | .fail e => return Json.mkObj [("fail", .str (reprStr e))]
    | .response f p fs ws => return Json.mkObj [("file", .str f), ("package", .str p), ("funcs", .arr (fs.map Json.str).toArray), ("failed", .arr (ws.map Json.str).toArray)]
  let ty ← str op "type"
  match findRoot ctx ty with
  | none => return Json.mkObj [("error", .str ("unknown type " ++ ty))]
  | some m =>
    let ov := ctx.cfg.importPathOverrides
    match kind with
    | "schema" =>
      return Json.mkObj [("attrs", Json.mkObj ((schemaOf m).map fun (k, a) => (k, encSAttr a)))]
    | "copyTo" =>
      let obj ← structArg (← fld op "obj")
      let tf ← objArg m (← fld op "tf")
      return toJson (copyTo m obj tf)
    | "copyFrom" =>
      let tf ← objArg m (← fld op "tf")
      let prior ← structArg (← fld op "prior")
      return fromJson (copyFrom ov m tf prior)
    | "seq" =>
      let mut tf ← objArg m (← fld op "tf")
      let mut obj ← structArg (← fld op "obj")
      let mut out : Array Json := #[]
      for st in arrD op "steps" do
        match strD st "do" with
        | "to" =>
          match st.getObjVal? "obj" with
          | .ok g => obj ← structArg g
          | _ => pure ()
          let r := copyTo m obj tf
          out := out.push (toJson r)
          match r with
          | .ok x => tf := x.tf
          | _ => break
        | "from" =>
          if strD st "prior" != "cur" then obj := .struct []
          let r := copyFrom ov m tf obj
          out := out.push (fromJson r)
          match r with
          | .ok x => obj := x.obj
          | _ => break
        | _ => throw "bad step"
      return Json.mkObj [("steps", .arr out)]
    | _ => return Json.mkObj [("error", .str "unknown op")]

partial def loop (ctx : Ctx) (h : IO.FS.Stream) (out : IO.FS.Stream) : IO Unit := do
  let line ← h.getLine
  if line.isEmpty then return ()
  if line.trimAscii.isEmpty then loop ctx h out else
  let res : Json :=
    match Json.parse line with
    | .error e => Json.mkObj [("modelError", .str e)]
    | .ok op =>
      match runOp ctx op with
      | .ok j => j
      | .error e => Json.mkObj [("modelError", .str e)]
  out.putStrLn res.compress
  loop ctx h out

def main (args : List String) : IO UInt32 := do
  match args with
  | [casePath] =>
    let txt ← IO.FS.readFile casePath
    match Json.parse txt >>= parseCase with
    | .error e => IO.eprintln s!"cannot read case: {e}"; return 2
    | .ok c =>
      let cfg := match readConfig c.yamlState c.yaml c.cli with | .ok cfg => cfg | .error _ => {}
      let (roots, _) := buildRoots cfg c.request
      let stdout ← IO.getStdout
      loop { cfg := cfg, roots := roots, c := c } (← IO.getStdin) stdout
      stdout.flush
      return 0
  | _ => IO.eprintln "usage: pgtmodel <case.json>"; return 2
